"""C01 - computed values equal NumPy's for every expression, chunking and executor.

Each run generates a program (with its NumPy shadow), builds it with cubed and
computes the requested arrays under a tape-chosen real executor
(single-threaded, threads-on-SimPool, processes-on-SimPool), optimizer setting,
executor options, task mode (atomic / two-phase / spread commit) and schedule.
No faults.  Oracle: shape and values equal the NumPy shadow.  An exception is
not a C01 violation (C17 judges it).
"""
from __future__ import annotations

import copy

from checks import progrun as PR
from checks.common import sig_of
from gen import programs as G
from sim import harness as H
from sim.tape import Tape

ID = "C01"
LEVEL = "exploration"
RULE = (
    "each run = one seeded program (1-3 independently chunked inputs, up to 8 (quick) / 16 (thorough) steps "
    "from a registry of ~90 public array functions with generated parameters, several requested outputs, sharing) "
    "x executor in {single-threaded, threads, processes} x optimizer setting x batch_size/max_workers/"
    "compute_arrays_in_parallel x task mode x seeded schedule. Non-trivial = cubed accepted the program, "
    "executed >= 2 operations and at least one requested array was compared with NumPy; distinct = distinct "
    "(program, configuration, event-log digest)."
)
ASSUMPTIONS = [
    "NumPy is the reference model for the registered operations (array-API rules encoded where they differ)",
    "Zarr and NumPy behave as documented; storage contract of DESIGN.md 2.4 (atomic, immediately visible key writes)",
    "input dimensions (shape x chunking x composition) are sampled by the workload generator, not enumerated",
]
COMPONENTS = {
    "real": ["cubed.core", "cubed.primitive", "cubed.array_api", "cubed.array", "cubed.storage",
             "cubed.runtime.asyncio", "cubed.runtime.executors.local (Single/Threads/Processes executors)",
             "cubed.runtime.pipeline", "tenacity", "aiostream", "cloudpickle", "networkx", "zarr 3.3", "numpy"],
    "stub": ["thread/process pool -> SimPool", "asyncio selector+clock -> VirtualLoop",
             "wall clock in cubed.runtime -> virtual clock", "storage backend -> SimStore (MemoryStore subclass)"],
}


def budget(tier):
    if tier == "quick":
        return dict(runs=2400, minutes=None, chunk=30, chunk_wall=900)
    return dict(runs=None, minutes=20.0, chunk=40, chunk_wall=1200)


def generate(tp: Tape, tier: str, profile=None, **genkw):
    thorough = tier == "thorough"
    if profile is None and "allow_zero_default" not in genkw and "allow_zero" not in genkw:
        genkw["allow_zero_default"] = True  # C01's own runs
    profile = profile or tp.weighted([("general", 6), ("rechunk", 2), ("multi", 2), ("reduce", 2), ("elemwise", 1)])
    kw = dict(max_steps=16 if thorough else 8, max_extent=tp.choice([12, 24, 40]) if thorough else 12,
              profile=profile)
    # zero-length dimensions are a recorded weak spot of cubed (known findings zero-length-dim-*): they are
    # explored where a matcher can attribute the consequences (C01, C12, C17) and kept out of the other checks,
    # where they would only mask other behaviour
    kw["allow_zero"] = genkw.pop("allow_zero_default", False)
    kw.update(genkw)
    prog = G.generate_program(tp, **kw)
    from checks import findings

    avoid = not tp.coin(1, 16)
    if avoid:
        prog = findings.avoid_known(prog, tp)
    case = dict(
        kind="prog", prog=prog, profile=profile, avoided=avoid,
        exec=H.exec_cfg_from_tape(tp),
        sim=H.sim_cfg_from_tape(tp),
        opt=PR.gen_opt(tp),
        allowed_mem=tp.choice([200_000_000, 200_000_000, 2_000_000, 100_000]),
        compressor=tp.choice([None, None, "auto"]),
        py_seed=tp.randint(0, 10**6),
        sched_seed=tp.randint(0, 2**62),
    )
    return case


def execute(case, sched=None):
    rr = PR.run_program(case, sched)
    shadow = G.shadow_of(case["prog"])
    violations = []
    for vid, d in PR.compare_results(rr, shadow):
        step = shadow.producer[vid]
        opname = case["prog"]["steps"][step]["op"] if step >= 0 else "input"
        violations.append(dict(cls="wrong_value", msg=f"value {vid} (produced by step {step}: {opname}): {d}",
                               op=opname))
    if isinstance(rr.exc, (H.SimHang, H.SimStepLimit)):
        violations.append(dict(cls="hang", msg=str(rr.exc)))
    counters = run_counters(rr, case)
    dg = PR.digest(rr)
    nontrivial = rr.results is not None and counters.get("ops_executed", 0) >= 2
    return dict(
        violations=violations, violation=violations[0] if violations else None, digest=dg,
        sig=sig_of(case["prog"], case["exec"], case["opt"], dg), nontrivial=nontrivial,
        counters=counters, vtime=rr.sim.now if rr.sim else 0.0, tape=list(rr.tape.record),
        outcome=dict(phase=rr.phase, exc=repr(rr.exc)[:200] if rr.exc else None),
    )


def run_counters(rr, case):
    c = {}
    sim = rr.sim
    if sim is None:
        return c
    ops = sum(1 for e in sim.events if e[2] == "cb_op_start")
    tasks = sum(1 for e in sim.events if e[2] == "cb_task_end")
    c["ops_executed"] = ops
    c["tasks_executed"] = tasks
    c["programs_accepted"] = int(rr.results is not None)
    c["declined_build"] = int(bool(rr.built and rr.built.declines))
    c["declined_plan"] = int(rr.phase == "plan")
    c["failed_execute"] = int(rr.phase == "execute")
    c["exec_" + case["exec"]["kind"]] = 1
    c["mode_" + (case.get("sim") or {}).get("mode", "atomic")] = 1
    c["opt_" + (case.get("opt") or {}).get("kind", "off")] = 1
    for k, v in sim.counters.items():
        c[k] = v
    for o in PR.ops_used(case["prog"]):
        c["op_" + o] = 1
    return c


def shrink(case):
    for p in G.shrink_program(case["prog"]):
        if p is None or not G.valid_program(p):
            continue
        c = copy.deepcopy(case)
        c["prog"] = p
        yield c
    for key, val in (("exec", dict(kind="single")), ("opt", dict(kind="off")),
                     ("sim", dict(mode="atomic", dur="zero")), ("allowed_mem", 200_000_000),
                     ("compressor", None)):
        if case.get(key) != val:
            c = copy.deepcopy(case)
            c[key] = val
            yield c


def known(case, violation):
    from checks import findings

    return findings.match(ID, case, violation)
