"""C02 - graph optimization (operation fusion) never changes any computed value.

Per run the same requested arrays are computed with optimize_graph=False and
with one tape-chosen optimizer.  Oracle: the optimized results equal the
unoptimized ones and the NumPy shadow; after the optimized compute (started
from an emptied intermediate store) every requested array is materialised: all
chunk keys of its stored grid are present in the store and read back to the
expected values.  An optimizer that raises while planning is a decline.
"""
from __future__ import annotations

import numpy as np

from checks import c01
from checks import progrun as PR
from checks.common import sig_of
from gen import programs as G
from sim import harness as H
from sim.monitor import storage_grid
from sim.store import is_data_key
from sim.tape import Tape

ID = "C02"
LEVEL = "exploration"
RULE = (
    "programs from the C01 generator (chains, diamonds, repeated arguments, multi-output ops, reductions, selections, "
    "rechunks; random sets of requested arrays incl. shared intermediates) computed twice in one simulated run: "
    "unoptimized, then - from an emptied intermediate store - with a seeded optimizer in {default multiple-input "
    "fusion with random max_total_source_arrays / max_total_num_input_blocks (incl. None), random always_fuse / "
    "never_fuse subsets, legacy simple_optimize_dag, fuse_all, fuse_only}. Non-trivial = both runs succeeded and the "
    "optimized plan has fewer operations than the unoptimized one (something was fused); distinct = distinct "
    "(program, optimizer setting, digest)."
)
ASSUMPTIONS = c01.ASSUMPTIONS + [
    "exact equality is required between optimized and unoptimized results for integer/bool/integer-valued float data; "
    "the C01 tolerance rule applies only to inexact operations",
]
COMPONENTS = c01.COMPONENTS


def budget(tier):
    if tier == "quick":
        return dict(runs=1600, minutes=None, chunk=25, chunk_wall=900)
    return dict(runs=None, minutes=20.0, chunk=30, chunk_wall=1200)


def gen_opt2(tp: Tape, n_ops_hint=8):
    k = tp.weighted([("default", 3), ("multi", 6), ("simple", 3), ("fuse_all", 2), ("always_never", 4), ("fuse_only", 2)])
    opt = dict(kind=k)
    if k in ("multi", "always_never"):
        if tp.coin():
            opt["max_total_source_arrays"] = tp.choice([1, 2, 3, 4, 8, 20])
        if tp.coin():
            opt["max_total_num_input_blocks"] = tp.choice([None, 1, 2, 4, 10, 100])
    if k in ("always_never", "fuse_only"):
        # subsets are chosen by index into the sorted op-name list at execution time
        opt["always_idx"] = [tp.randint(0, 40) for _ in range(tp.randint(0, 3))]
        opt["never_idx"] = [tp.randint(0, 40) for _ in range(tp.randint(0, 3))]
    return opt


def generate(tp: Tape, tier: str):
    profile = tp.weighted([("general", 5), ("elemwise", 3), ("multi", 3), ("reduce", 3), ("rechunk", 2)])
    case = c01.generate(tp, tier, profile=profile, max_outputs=4, min_steps=2)
    case["opt"] = dict(kind="off")
    case["opt2"] = gen_opt2(tp)
    # the schedule dimension adds little here: mostly cheap deterministic executors
    case["exec"] = H.exec_cfg_from_tape(tp, kinds=("single", "single", "threads", "processes"))
    return case


def resolve_opt(opt, arrays):
    """Turn index-based always/never sets into op names of the actual plan."""
    from functools import partial

    import cubed.core.optimization as co
    from cubed.core.plan import arrays_to_plan

    k = opt["kind"]
    if k not in ("always_never", "fuse_only"):
        return PR.make_optimize_function(opt)
    dag = arrays_to_plan(*arrays).dag
    names = sorted(n for n, d in dag.nodes(data=True) if d.get("type") == "op")
    pick = lambda idxs: {names[i % len(names)] for i in idxs} if names else set()  # noqa: E731
    always, never = pick(opt.get("always_idx", [])), pick(opt.get("never_idx", []))
    never -= always
    if k == "fuse_only":
        return True, partial(co.fuse_only_optimize_dag, only_fuse=always)
    kw = {}
    if "max_total_source_arrays" in opt:
        kw["max_total_source_arrays"] = opt["max_total_source_arrays"]
    if "max_total_num_input_blocks" in opt:
        kw["max_total_num_input_blocks"] = opt["max_total_num_input_blocks"]
    return True, partial(co.multiple_inputs_optimize_dag, always_fuse=always, never_fuse=never, **kw)


def execute(case, sched=None):
    import cubed

    violations = []
    counters = {}
    with PR.Session(case, sched) as rr:
        ok = PR.build_program(rr)
        res1 = res2 = None
        phase2 = exc2 = None
        if ok:
            res1, rr.phase, rr.exc = PR.compute(rr, opt=dict(kind="off"))
            rr.results = res1
            n_ops1 = sum(1 for e in rr.sim.events if e[2] == "cb_op_start")
            if res1 is not None:
                # start the optimized run from an empty intermediate store, so that a
                # requested array that is not written cannot be satisfied by stale data
                rr.store.restore({})
                ev0 = len(rr.sim.events)
                try:
                    og, of = resolve_opt(case["opt2"], rr.arrays)
                    st = H.ExecState()
                    executor = H.make_executor(rr.sim, case["exec"], st)
                    cb = H.make_callback(rr.sim)
                    try:
                        res2 = cubed.compute(*rr.arrays, executor=executor, callbacks=[cb], optimize_graph=og,
                                             optimize_function=of)
                    except (H.SimHang, H.SimStepLimit) as e:
                        phase2, exc2 = "execute", e
                    except Exception as e:  # noqa: BLE001
                        phase2, exc2 = ("execute" if st.entered else "plan"), e
                except Exception as e:  # noqa: BLE001 - building the optimizer setting failed
                    phase2, exc2 = "plan", e
                n_ops2 = sum(1 for e in rr.sim.events[ev0:] if e[2] == "cb_op_start")
                counters["ops_unoptimized"] = n_ops1
                counters["ops_optimized"] = n_ops2
                counters["fused_something"] = int(res2 is not None and n_ops2 < n_ops1)
                if phase2 == "plan":
                    counters["optimizer_declined"] = 1
                if phase2 == "execute":
                    violations.append(dict(
                        cls=f"optimized_plan_failed_in_execution:{type(exc2).__name__}",
                        msg=f"unoptimized plan computed, plan optimized with {case['opt2']} failed: {type(exc2).__name__}: {str(exc2)[:200]} at {PR.exc_where(exc2)}",
                        where=PR.exc_where(exc2), exc_type=type(exc2).__name__))
                if res2 is not None:
                    shadow = G.shadow_of(case["prog"])
                    for vid, a, r1, r2 in zip(rr.requested, rr.arrays, res1, res2):
                        r1, r2 = np.asarray(r1), np.asarray(r2)
                        exact = shadow.exact[vid]
                        d = G.compare(r2, r1, exact=exact, lowprec=shadow.lowprec[vid])
                        if d is not None and not shadow.random[vid]:
                            violations.append(dict(cls="optimized_differs_from_unoptimized",
                                                   msg=f"value {vid} with {case['opt2']}: {d}"))
                        if shadow.random[vid]:
                            # random arrays: optimized and unoptimized runs must still agree exactly
                            if not np.array_equal(r1, r2, equal_nan=r1.dtype.kind in "fc" and r2.dtype.kind in "fc"):
                                violations.append(dict(cls="optimized_differs_from_unoptimized",
                                                       msg=f"random-derived value {vid} differs between runs"))
                            continue
                        d = G.compare(r2, shadow.values[vid], exact=exact, lowprec=shadow.lowprec[vid])
                        if d is not None:
                            violations.append(dict(cls="optimized_differs_from_numpy", msg=f"value {vid}: {d}"))
                        # materialisation: every chunk key of the stored grid present
                        m = materialised(rr, a)
                        if m is not None:
                            violations.append(dict(cls="requested_array_not_materialised", msg=f"value {vid}: {m}"))
    rc = c01.run_counters(rr, case)
    rc.update(counters)
    rc["opt2_" + case["opt2"]["kind"]] = 1
    dg = PR.digest(rr, extra=(str(phase2), type(exc2).__name__ if exc2 else None))
    nontrivial = bool(counters.get("fused_something"))
    return dict(violations=violations, violation=violations[0] if violations else None, digest=dg,
                sig=sig_of(case["prog"], case["opt2"], dg), nontrivial=nontrivial, counters=rc,
                vtime=rr.sim.now, tape=list(rr.tape.record),
                outcome=dict(phase=rr.phase, phase2=phase2, exc=repr(rr.exc)[:200] if rr.exc else None,
                             exc2=repr(exc2)[:200] if exc2 else None))


def materialised(rr, a):
    """None if every stored object of the array's grid is present in the store."""
    import math

    from cubed.storage.zarr import open_if_lazy_zarr_array

    if a.size == 0:
        return None
    try:
        z = open_if_lazy_zarr_array(a._zarray)
    except Exception as e:  # noqa: BLE001
        return f"backing array cannot be opened: {e!r}"
    if not hasattr(z, "store_path"):
        return None  # structured group or virtual array
    if z.store_path.store is not rr.store:
        return None
    grid = storage_grid(z)
    want = math.prod(len(g) for g in grid) if grid else 1
    prefix = z.store_path.path
    have = sum(1 for k in rr.store.keys() if k.startswith(prefix + "/") and is_data_key(k))
    if have != want:
        return f"{have} of {want} chunk keys present under {prefix}"
    return None


def shrink(case):
    import copy

    yield from c01.shrink(case)
    o2 = case["opt2"]
    for simpler in (dict(kind="default"), dict(kind="multi")):
        if o2 != simpler:
            c = copy.deepcopy(case)
            c["opt2"] = simpler
            yield c
    for key in ("max_total_source_arrays", "max_total_num_input_blocks", "always_idx", "never_idx"):
        if key in o2 and o2[key] not in ([],):
            c = copy.deepcopy(case)
            if key.endswith("_idx"):
                c["opt2"][key] = []
            else:
                del c["opt2"][key]
            yield c


def known(case, violation):
    from checks import findings

    return findings.match(ID, case, violation)
