"""C03 - projected memory is a true upper bound on what every task allocates.

The simulator runs exactly one task body at a time, which is what makes "memory
this task allocates" well defined; around every body it does ``gc.collect();
tracemalloc.reset_peak(); body; peak - baseline``.  tracemalloc sees NumPy data
buffers (NumPy registers them), Zarr's buffers and codec output.  Oracle: for
every task of every operation, ``peak <= projected_mem(op)`` from the
FinalizedPlan that was executed.  Non-data allocations (interpreter objects,
JSON metadata; tens of kB per task) are absorbed by ``reserved_mem = 512 kB``,
which the projection includes by definition, and chunks are >= ~1 MB so that a
missing chunk-sized term is far above that slack.
"""
from __future__ import annotations

import gc
import tracemalloc

import numpy as np

from checks import c01
from checks import progrun as PR
from checks.common import sig_of
from gen import programs as G
from sim import harness as H
from sim.tape import Tape

ID = "C03"
LEVEL = "exploration"
RULE = (
    "each run = 1-3 operations (chains, so fused and unfused plans occur) from a memory-relevant subset of the public "
    "API on 1-2 inputs with ~1-2.5 MB chunks: geometry in {square, skinny, uneven last chunk}, dtype in {float64, "
    "float32, int64, int32, int8->widening reductions}, compressor in {None, default}, optimizer on/off, executor "
    "flavour in {single, threads, processes}; atomic task mode (measurements must not overlap). Every task body is "
    "bracketed with tracemalloc. Non-trivial = >= 2 operations executed with >= 3 measured tasks; distinct = distinct "
    "(program, configuration)."
)
ASSUMPTIONS = [
    "tracemalloc sees NumPy data buffers, Zarr buffers and Python-level allocations; allocations inside C libraries "
    "without tracemalloc hooks (codec scratch space) are not seen",
    "reserved_mem = 512 kB absorbs interpreter/metadata overhead (measured 35-80 kB per task)",
    "sampled geometries; chunk memory >= ~1 MB",
]
COMPONENTS = c01.COMPONENTS
RESERVED = 512_000
MEM_OPS = ["negative", "abs", "square", "add", "subtract", "multiply", "maximum", "equal", "less", "where", "astype",
           "scalar_op", "clip", "getitem", "concat", "stack", "reshape", "flip", "roll", "repeat", "tile",
           "expand_dims", "permute_dims", "moveaxis", "matrix_transpose", "broadcast_to", "rechunk", "tril", "sum",
           "prod", "max", "min", "mean", "var", "argred", "cumulative", "count_nonzero", "diff", "nanred", "matmul",
           "tensordot", "vecdot", "qr_recon", "svd_s", "pad", "map_blocks", "map_overlap", "exp", "sqrt", "isnan",
           "divide", "any", "all", "unstack2", "broadcast_arrays", "merge_chunks"]


def budget(tier):
    if tier == "quick":
        return dict(runs=192, minutes=None, chunk=4, chunk_wall=1500, shrink_budget=25, shrink_wall=300.0)
    return dict(runs=None, minutes=20.0, chunk=4, chunk_wall=1800, shrink_budget=40, shrink_wall=600.0)


def gen_big_input(tp: Tape, dtype=None, related=None):
    dtype = dtype or tp.weighted([("float64", 6), ("float32", 2), ("int64", 2), ("int32", 1), ("int8", 1)])
    isz = np.dtype(dtype).itemsize
    target_elems = tp.choice([130_000, 160_000, 300_000]) * 8 // isz  # ~1-2.4 MB per chunk
    geo = tp.weighted([("square", 4), ("skinny", 3), ("uneven", 3), ("1d", 1), ("3d", 1), ("thin", 3)])
    if related is not None and tp.coin(2, 3):
        shape, chunks = list(related["shape"]), list(related["chunks"])
    elif geo == "1d":
        c = target_elems
        shape, chunks = [c * 2 + tp.randint(0, c // 2)], [c]
    elif geo == "3d":
        c = max(8, round(target_elems ** (1 / 3)))
        shape, chunks = [c + tp.randint(1, c), c * 2, c + 3], [c, c, c]
    elif geo == "thin":
        # chunks only 1-2 elements thick along one axis: a reduced chunk is then about as big as an input chunk
        c0 = tp.choice([1, 2])
        c1 = target_elems // c0
        shape, chunks = [c0 * tp.randint(3, 6), c1], [c0, c1]
        if tp.coin(1, 3):
            shape, chunks = shape[::-1], chunks[::-1]
    elif geo == "skinny":
        c0 = tp.choice([8, 16, 40])
        c1 = target_elems // c0
        shape, chunks = [c0 * 3 + tp.randint(0, c0), c1 + tp.randint(0, c1 // 2)], [c0, c1]
        if tp.coin():
            shape, chunks = shape[::-1], chunks[::-1]
    else:
        c = int(target_elems ** 0.5)
        shape, chunks = [c * 2 + (tp.randint(1, c - 1) if geo == "uneven" else 0), c * 2 + (tp.randint(1, c // 3) if geo == "uneven" else 0)], [c, c]
    # inputs come from storage: asarray refuses in-memory arrays above 1 MB
    return dict(shape=shape, chunks=chunks, dtype=dtype, src="from_zarr",
                data_seed=tp.randint(0, 10**6), nan=False)


def generate(tp: Tape, tier: str):
    i0 = gen_big_input(tp)
    inputs = [i0]
    if tp.coin(2, 3):
        inputs.append(gen_big_input(tp, dtype=i0["dtype"], related=i0))
    prog = G.generate_program(tp, max_steps=3, min_steps=1, inputs=inputs, only_ops=MEM_OPS, max_outputs=1,
                              size_cap=3_000_000, result_cap=6_000_000, allow_zero=False)
    k = tp.weighted([("asis", 6), ("same_operand_twice", 1), ("widening_reduction", 2)])
    if k == "same_operand_twice":
        # the same array as both operands of an op with a narrower output
        op = tp.choice(["equal", "not_equal", "less", "greater_equal", "add", "multiply"])
        if op in G.OPS and (op in ("add", "multiply") or True):
            prog = dict(inputs=inputs, steps=[dict(op=op, args=[0, 0], p={})], outputs=[len(inputs)])
    if k == "widening_reduction" and tp.coin(1, 2):
        # float32 input, chunks 1-2 thick along the reduced axis: the reduced (wider) chunk is as big as an input chunk
        c0 = tp.choice([1, 2])
        c1 = tp.choice([260_000, 400_000, 600_000]) // c0
        inputs = [dict(shape=[c0 * tp.randint(3, 5), c1], chunks=[c0, c1], dtype="float32", src="from_zarr",
                       data_seed=tp.randint(0, 10**6), nan=False)]
        prog = dict(inputs=inputs, steps=[dict(op=tp.choice(["mean", "mean", "nanred"]), args=[0],
                                               p=dict(axis=0, keepdims=False, fn="nanmean"))], outputs=[1])
    elif k == "widening_reduction" and np.dtype(inputs[0]["dtype"]).kind == "f":
        # reductions whose intermediate is wider than the input (float32 mean/var: {n: int64, total: float64})
        ax = tp.choice([0, len(inputs[0]["shape"]) - 1, None])
        fn = tp.choice(["mean", "var", "nanred"])
        p_ = dict(axis=ax, keepdims=False)
        if fn == "var":
            p_.update(correction=0, fn=tp.choice(["var", "std"]))
        if fn == "nanred":
            p_.update(fn=tp.choice(["nanmean", "nansum"]))
        prog = dict(inputs=inputs, steps=[dict(op=fn, args=[0], p=p_)], outputs=[len(inputs)])
    raw = tp.coin(1, 8)
    original = __import__("copy").deepcopy(prog)
    if not raw:
        # avoidance transforms for the two known findings (kept raw in 1/8 of the runs)
        for st in prog["steps"]:
            if st["op"] == "getitem":
                for e in st["p"]["idx"]:
                    if e[0] == "s" and e[3] not in (None, 1):
                        e[3] = None
                st["p"]["idx"] = [e if e[0] != "a" else ["s", None, None, None] for e in st["p"]["idx"]]
        # roll (known finding mem-roll-unaligned-concat) is only kept in the raw fraction
        drop = [i for i, st in enumerate(prog["steps"]) if st["op"] == "roll"]
        if drop:
            p2 = G.remove_steps(prog, drop)
            if p2 is not None:
                prog = p2
        if not G.valid_program(prog):
            raw = True
            prog = original
    # chunk parameters drawn by the general generator would make thousands of tiny tasks: keep chunks MB-sized
    sh = G.shadow_of(prog)
    for st in prog["steps"]:
        if st["op"] == "rechunk":
            shp = sh.values[st["args"][0]].shape
            st["p"]["chunks"] = [max(1, -(-s // tp.choice([1, 1, 2, 3]))) for s in shp]
            st["p"].pop("min_mem", None)
    avoid_fused_argred = (not raw) and any(st["op"] in ("argred",) for st in prog["steps"])
    case = dict(kind="prog", prog=prog, profile="memory", raw=raw,
                exec=dict(kind=tp.choice(["single", "threads", "processes"]), max_workers=2),
                sim=dict(mode="atomic", dur="zero"),
                opt=tp.choice([dict(kind="default"), dict(kind="default"), dict(kind="off"), dict(kind="multi", max_total_num_input_blocks=20)]),
                allowed_mem=2_000_000_000, reserved_mem=RESERVED,
                compressor=tp.choice([None, "auto"]), py_seed=tp.randint(0, 10**6), sched_seed=tp.randint(0, 2**62))
    if avoid_fused_argred:
        case["opt"] = dict(kind="off")
    if not raw and tp.coin(2, 3):
        # fused plans are sampled in a minority of runs: their under-projection is a known finding
        case["opt"] = dict(kind="off")
    return case


def execute(case, sched=None):
    measures = []  # (op name, input, peak bytes)

    stores = []

    def wrapper(job, thunk):
        gc.collect()
        tracemalloc.reset_peak()
        base = tracemalloc.get_traced_memory()[0]
        kept0 = sum(s_.sh.bytes_retained for s_ in stores)
        try:
            return thunk()
        finally:
            cur, peak = tracemalloc.get_traced_memory()
            # bytes the in-memory SimStore retained stand in for the storage medium: not task memory
            kept = sum(s_.sh.bytes_retained for s_ in stores) - kept0
            measures.append((job.label[0], job.label[1], peak - base - kept))

    def pre(rr_):
        stores[:] = list(rr_.sim.stores)
        for s_ in stores:
            s_.sh.copy_on_read = True  # reads allocate, as reading from a real store does

    violations = []
    # guard: a plan with very many tasks would spend its time in gc.collect(), not in measuring
    try:
        with PR.Session(case, sched) as rr_:
            if PR.build_program(rr_):
                import cubed

                og_, of_ = PR.make_optimize_function(case.get("opt"))
                if cubed.plan(*rr_.arrays, optimize_graph=og_, optimize_function=of_).num_tasks > 250:
                    dg = "too-many-tasks"
                    return dict(violations=[], violation=None, digest=dg, sig=sig_of(case["prog"], dg), nontrivial=False,
                                counters={"skipped_too_many_tasks": 1}, vtime=0.0, tape=[], outcome=dict(phase="skipped"))
    except Exception:  # noqa: BLE001
        pass
    started_here = not tracemalloc.is_tracing()
    if started_here:
        tracemalloc.start()
    try:
        # measured twice; per task the smaller peak counts, so that one-off allocations (lazy imports,
        # caches filled on first use) cannot be mistaken for data memory and the verdict replays
        rr = PR.run_program(case, sched, body_wrapper=wrapper, pre_compute=pre)
        first = list(measures)
        measures.clear()
        if rr.results is not None:
            rr = PR.run_program(case, sched, body_wrapper=wrapper, pre_compute=pre)
            best = {}
            for name, inp, peak in first:
                best[(name, inp)] = peak
            merged = []
            for name, inp, peak in measures:
                merged.append((name, inp, min(peak, best.get((name, inp), peak))))
            measures[:] = merged
    finally:
        if started_here:
            tracemalloc.stop()
    counters = c01.run_counters(rr, case) if rr.sim else {}
    tight = 0.0
    nmeas = 0
    if rr.results is not None and rr.cb is not None and getattr(rr.cb, "dag", None) is not None:
        proj = {n: d["primitive_op"] for n, d in rr.cb.dag.nodes(data=True) if d.get("primitive_op") is not None}
        worst = {}
        for name, inp, peak in measures:
            po = proj.get(name)
            if po is None:
                continue
            nmeas += 1
            ratio = peak / po.projected_mem if po.projected_mem else 0
            tight = max(tight, ratio)
            # guard band (10 % / 64 kB): non-array allocations of a task (index arrays, metadata documents,
            # Python objects) are not "memory for array data" and may exceed the reserved_mem this check
            # configures; a missing chunk-sized term is far above the band at these chunk sizes. It also keeps
            # a borderline measurement from flipping between a run and its replay.
            # (band widened from 5 % to 10 % after soak runs: boolean masks / index vectors of operations such as
            #  tril or the nan-functions add 5-6 % on thin chunks; they are smaller than any chunk-sized term)
            if peak > po.projected_mem + max(po.projected_mem // 10, 64_000):
                w = worst.get(name)
                if w is None or peak > w[1]:
                    worst[name] = (inp, peak, po.projected_mem)
        for name, (inp, peak, pm) in worst.items():
            d = rr.cb.dag.nodes[name]
            pname = str(getattr(d.get("pipeline"), "name", ""))
            violations.append(dict(cls="task_exceeds_projected_mem", func=str(d.get("func_name")), ratio=round(peak / pm, 3),
                                   fused=pname.startswith("fused"),
                                   msg=f"task {inp} of {name} ({d.get('op_name')}/{d.get('func_name')}) allocated {peak} bytes at peak, projected_mem is {pm} (reserved {RESERVED}); program ops {PR.ops_used(case['prog'])}",
                                   ops=PR.ops_used(case["prog"])))
    counters["tasks_measured"] = nmeas
    counters["max_peak_over_projected_permille"] = int(tight * 1000)
    counters["tight_runs_over_0.8"] = int(tight > 0.8)
    counters["compressor_" + str(case.get("compressor"))] = 1
    dg = PR.digest(rr)
    nontrivial = rr.results is not None and counters.get("ops_executed", 0) >= 2 and nmeas >= 3
    return dict(violations=violations, violation=violations[0] if violations else None, digest=dg,
                sig=sig_of(case["prog"], case["exec"], case["opt"], case.get("compressor")), nontrivial=nontrivial,
                counters=counters, vtime=rr.sim.now if rr.sim else 0.0, tape=list(rr.tape.record),
                outcome=dict(phase=rr.phase, exc=repr(rr.exc)[:200] if rr.exc else None, tight=round(tight, 3)))


def shrink(case):
    import copy

    # drop steps only: extents must stay large for the measurement to mean anything
    prog = case["prog"]
    p0 = G.prune(prog)
    if p0 is not None and len(p0["steps"]) < len(prog["steps"]):
        c = copy.deepcopy(case)
        c["prog"] = p0
        yield c
    for si in range(len(prog["steps"]) - 1, -1, -1):
        p = G.remove_steps(prog, [si])
        if p is not None and G.valid_program(p):
            c = copy.deepcopy(case)
            c["prog"] = p
            yield c
    n_in = len(prog["inputs"])
    nvals = n_in + sum(G.OPS[s["op"]].nout for s in prog["steps"])
    for v in range(nvals - 1, n_in - 1, -1):
        if [v] != prog["outputs"]:
            c = copy.deepcopy(case)
            c["prog"]["outputs"] = [v]
            p = G.prune(c["prog"])
            if p is not None:
                c["prog"] = p
                yield c
    for key, val in (("exec", dict(kind="single")), ("opt", dict(kind="off")), ("compressor", None)):
        if case.get(key) != val:
            c = copy.deepcopy(case)
            c[key] = val
            yield c


def known(case, violation):
    from checks import findings

    return findings.match(ID, case, violation)
