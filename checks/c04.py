"""C04 - over-budget plans are refused before anything runs; fusion stays within budget.

allowed_mem is baked into operations at build time and fusion decisions depend
on it, so each run *rebuilds* the same generated program under a sequence of
budgets around its own admission boundary: first with a huge budget to read
P0 = max projected memory, then with allowed_mem in {P-1, P, P+1, ...} for the P
reported under the previous budget, with seeded reserved_mem, optimizer setting
and executor.  Oracle over the recorded history: if the final plan has an
operation with projected > allowed, compute / to_zarr raises ValueError, the
executor's execute_dag is never entered and no store (intermediate or target)
sees a set, a delete or a data-chunk get; otherwise the executor is entered.
Planning-level checks on the same runs: if the unoptimized plan fits, every
default-style optimized plan (no always_fuse) fits; every fused operation
reports at least the projected memory of each operation it replaced.
"""
from __future__ import annotations

import copy

import numpy as np

from checks import c01
from checks import progrun as PR
from checks.common import sig_of
from gen import programs as G
from sim import harness as H
from sim import store as simstore
from sim.core import Sim, activated, events_digest
from sim.store import is_data_key
from sim.tape import Tape

ID = "C04"
LEVEL = "exploration"
RULE = (
    "each run = one seeded program rebuilt under 4-6 budgets: huge, then allowed_mem in {P-1, P, P+1} around the "
    "projected maximum P reported under the previous budget (so the boundary is hit exactly even when P itself moves "
    "with the budget), plus P//2, with seeded reserved_mem, optimizer setting (default / multi with random limits / "
    "off / simple / always_fuse sets) , executor and sink (compute, eager to_zarr into a fresh target store). "
    "Non-trivial = at least one budget was refused at admission and at least one was admitted and executed; distinct "
    "= distinct (program, budgets, digest)."
)
ASSUMPTIONS = c01.ASSUMPTIONS + [
    "'before anything runs' is judged at the simulator's seams: executor entry and the traces of every store",
    "a refusal while the expression is built (e.g. rechunk cannot be planned in the budget) is also a refusal before "
    "anything runs and is checked for absence of side effects",
]
COMPONENTS = c01.COMPONENTS


def budget(tier):
    if tier == "quick":
        return dict(runs=1200, minutes=None, chunk=20, chunk_wall=900)
    return dict(runs=None, minutes=20.0, chunk=25, chunk_wall=1200)


def generate(tp: Tape, tier: str):
    profile = tp.weighted([("general", 4), ("reduce", 3), ("rechunk", 3), ("elemwise", 3), ("multi", 2)])
    case = c01.generate(tp, tier, profile=profile, max_extent=tp.choice([12, 24]), allow_zero=False,
                        exclude_ops=("groupby",))
    case["reserved_mem"] = tp.choice([0, 0, 100, 1000, 12345])
    case["opt"] = tp.weighted([(dict(kind="default"), 5), (dict(kind="off"), 2), (PR.gen_opt(tp), 4)])
    case["always_fuse_all"] = tp.coin(1, 6)
    case["sink"] = tp.choice(["compute", "compute", "to_zarr", "store_eager"])
    case["exec"] = H.exec_cfg_from_tape(tp, kinds=("single", "threads", "processes"))
    case["deltas"] = tp.sample([-1, 0, 1], 3) + [tp.choice([-7, 2, 64])]
    return case


def op_mems(plan):
    out = {}
    for n, d in plan.dag.nodes(data=True):
        po = d.get("primitive_op")
        if po is not None:
            out[n] = (po.projected_mem, po.allowed_mem)
    return out


def one_budget(case, allowed, sched_tape, tag):
    """Build under `allowed`, plan, run the sink. Returns a record dict."""
    import cubed

    rec = dict(allowed=allowed, tag=tag, phase=None, exc=None, entered=0, over=None, P=None, dirty=None)
    H.reset_globals(case.get("py_seed", 0))
    sim = Sim(sched_tape, case.get("sim"))
    store = simstore.SimStore(name="inter")
    src = simstore.SimStore(name="src")
    tgt = simstore.SimStore(name="target")
    for s in (store, src, tgt):
        sim.attach_store(s)
    rec["sim"] = sim
    reserved = case.get("reserved_mem", 0)
    with activated(sim), H.quiet(), H.single_job_labels(sim):
        try:
            spec = H.make_spec(store, allowed_mem=allowed, reserved_mem=reserved, compressor=case.get("compressor"))
        except Exception as e:  # noqa: BLE001
            rec.update(phase="spec", exc=e)
            return rec
        src.sh.tracing = False
        built = G.build(case["prog"], spec, src)
        src.sh.tracing = True
        rec["declines"] = [(d.step_index, type(d.exc).__name__) for d in built.declines]
        req = [o for o in case["prog"]["outputs"] if built.values[o] is not None]
        arrays = [built.values[o] for o in req]
        rec["requested"] = req
        if not arrays:
            rec["phase"] = "build"
            rec["dirty"] = dirtiness(sim)
            return rec
        sink = case["sink"]
        if sink == "to_zarr":
            # store the first non-empty requested array (lazy form, so that the plan that will
            # be admitted - including the store operation - can be inspected first)
            cand = [(o, a) for o, a in zip(req, arrays) if a.size > 0 and a.ndim > 0]
            if not cand:
                sink = "compute"
            else:
                try:
                    lazy = cubed.to_zarr(cand[0][1], tgt, path="out", compute=False)
                except Exception as e:  # noqa: BLE001
                    rec.update(phase="build", exc=e)
                    rec["dirty"] = dirtiness(sim)
                    return rec
                req, arrays = [cand[0][0]], [lazy]
                rec["requested"] = req
        store_srcs = None
        if sink == "store_eager":
            # eager store() of several sources: the plan that will be admitted is inspected through the lazy form
            # (fresh targets), then the eager call runs on the same sources with other fresh targets
            cand = [(o, a) for o, a in zip(req, arrays) if a.size > 0 and a.ndim > 0]
            if len(cand) < 2:
                sink = "compute"
            else:
                store_srcs = [a for _, a in cand]
                tg_a = [simstore.SimStore(name=f"ta{k}") for k in range(len(cand))]
                tg_b = [simstore.SimStore(name=f"tb{k}") for k in range(len(cand))]
                for t_ in tg_a + tg_b:
                    sim.attach_store(t_)
                try:
                    lazies = cubed.store(store_srcs, tg_a, compute=False)
                except Exception as e:  # noqa: BLE001
                    rec.update(phase="build", exc=e)
                    rec["dirty"] = dirtiness(sim)
                    return rec
                req, arrays = [o for o, _ in cand], list(lazies)
                rec["requested"] = req
        rec["sink"] = sink
        og, of = PR.make_optimize_function(case.get("opt"))
        if case.get("always_fuse_all") and og:
            import cubed.core.optimization as co

            of = co.fuse_all_optimize_dag
        # planning-level facts ------------------------------------------------
        try:
            plan_opt = cubed.plan(*arrays, optimize_graph=og, optimize_function=of)
            plan_un = cubed.plan(*arrays, optimize_graph=False)
            mems = op_mems(plan_opt)
            rec["P"] = max((m for m, _ in mems.values()), default=0)
            rec["over"] = any(m > a for m, a in mems.values())
            rec["over_unopt"] = any(m > a for m, a in op_mems(plan_un).values())
            rec["plan_says_over"] = bool(plan_opt.exceeds_memory)
            rec["fused_underreport"] = fused_underreport(plan_un, plan_opt)
            rec["n_ops"] = (len(op_mems(plan_un)), len(mems))
        except Exception as e:  # noqa: BLE001 - optimizer refused (e.g. forced fusion impossible)
            rec.update(phase="plan_build", exc=e)
            rec["dirty"] = dirtiness(sim)
            return rec
        st = H.ExecState()
        executor = H.make_executor(sim, case["exec"], st)
        cb = H.make_callback(sim)
        try:
            if sink == "store_eager":
                cubed.store(store_srcs, tg_b, executor=executor, callbacks=[cb], optimize_graph=og, optimize_function=of)
                rec["results"] = []
            elif sink == "to_zarr":
                cubed.compute(arrays[0], executor=executor, callbacks=[cb], optimize_graph=og, optimize_function=of,
                              _return_in_memory_array=False)
                import zarr

                tgt.sh.tracing = False
                rec["results"] = [np.asarray(zarr.open_array(store=tgt, path="out", mode="r")[...])]
            else:
                res = cubed.compute(*arrays, executor=executor, callbacks=[cb], optimize_graph=og, optimize_function=of)
                rec["results"] = [np.asarray(r) for r in res]
        except (H.SimHang, H.SimStepLimit) as e:
            rec.update(phase="execute", exc=e)
        except Exception as e:  # noqa: BLE001
            rec.update(phase="execute" if st.entered else "plan", exc=e)
        rec["entered"] = st.entered
        rec["dirty"] = dirtiness(sim)
    return rec


def dirtiness(sim):
    """What the stores saw: (sets, deletes, data gets, durable keys)."""
    sets = dels = gets = keys = 0
    for st in sim.stores:
        if st.sh.name == "src":
            continue
        keys += len(st._store_dict)
        for (seq, t, job, op, key, outcome, nbytes, sha) in st.trace:
            if op in ("set", "commit", "set_if_not_exists"):
                sets += 1
            elif op in ("delete", "commit_delete", "clear"):
                dels += 1
            elif op == "get" and is_data_key(key):
                gets += 1
    src_gets = 0
    for st in sim.stores:
        if st.sh.name == "src":
            src_gets = sum(1 for e in st.trace if e[3] == "get" and is_data_key(e[4]))
    return dict(sets=sets, deletes=dels, data_gets=gets, keys=keys, source_data_gets=src_gets)


def fused_underreport(plan_un, plan_opt):
    """[(op, fused projected, constituent, constituent projected)] where fused < constituent."""
    un, op = plan_un.dag, plan_opt.dag
    un_ops = {n: d["primitive_op"] for n, d in un.nodes(data=True) if d.get("primitive_op") is not None}
    opt_ops = {n: d["primitive_op"] for n, d in op.nodes(data=True) if d.get("primitive_op") is not None}
    removed = set(un_ops) - set(opt_ops)
    bad = []
    for x, pox in opt_ops.items():
        if x not in un_ops:
            continue
        # constituents: x plus removed producer ops reachable backwards through removed ops only
        cons = {x}
        stack = [x]
        while stack:
            n = stack.pop()
            for arr in un.predecessors(n):
                for prod in un.predecessors(arr):
                    if prod in removed and prod not in cons:
                        cons.add(prod)
                        stack.append(prod)
        if len(cons) == 1:
            continue
        for c in cons:
            if pox.projected_mem < un_ops[c].projected_mem:
                bad.append((x, pox.projected_mem, c, un_ops[c].projected_mem))
    return bad


def execute(case, sched=None):
    tape = Tape(case["sched_seed"]) if sched is None else Tape(replay=sched)
    violations = []
    recs = []
    r0 = one_budget(case, 2_000_000_000, tape, "huge")
    recs.append(r0)
    P = r0.get("P")
    budgets = []
    if P:
        for d in case["deltas"]:
            budgets.append(("P%+d" % d, P + d))
        budgets.append(("P//2", max(1, P // 2)))
    prevP = P
    for tag, a in budgets:
        if a <= case.get("reserved_mem", 0):
            continue
        r = one_budget(case, int(a), tape, tag)
        recs.append(r)
        # follow a moving boundary: if P changed under this budget, probe its new boundary as well
        if r.get("P") and r["P"] != prevP and len(recs) < 8:
            prevP = r["P"]
            r2 = one_budget(case, int(r["P"]), tape, "P'")
            recs.append(r2)
            if r2.get("P") and r2["P"] - 1 > case.get("reserved_mem", 0):
                recs.append(one_budget(case, int(r2["P"]) - 1, tape, "P'-1"))
    shadow = G.shadow_of(case["prog"])
    refused = admitted = 0
    for r in recs:
        d = r.get("dirty") or {}
        tag = f"allowed_mem={r['allowed']} ({r['tag']}), projected max={r.get('P')}"
        if r.get("over") is not None and r["over"] != r.get("plan_says_over"):
            violations.append(dict(cls="plan_exceeds_memory_flag_wrong",
                                   msg=f"{tag}: an operation projects more than allowed: {r['over']}, plan.exceeds_memory={r.get('plan_says_over')}"))
        if r.get("fused_underreport"):
            x = r["fused_underreport"][0]
            violations.append(dict(cls="fused_projected_mem_below_constituent",
                                   msg=f"{tag}: fused op {x[0]} reports {x[1]} < {x[3]} of replaced op {x[2]}"))
        if r.get("over") is False and r.get("over_unopt") is not None:
            pass
        if (r.get("over_unopt") is False and r.get("over") is True and not case.get("always_fuse_all")
                and (case.get("opt") or {}).get("kind") in ("default", "multi")):
            violations.append(dict(cls="optimization_pushed_plan_over_budget",
                                   msg=f"{tag}: the unoptimized plan fits but the plan optimized with {case['opt']} does not"))
        if r.get("over") is True:
            refused += 1
            if r["phase"] not in ("plan",) or not isinstance(r["exc"], ValueError):
                if r["phase"] is None:
                    violations.append(dict(cls="over_budget_plan_executed",
                                           msg=f"{tag}: plan exceeds allowed memory but {case['sink']} completed"))
                else:
                    violations.append(dict(cls="over_budget_not_refused_with_valueerror",
                                           msg=f"{tag}: phase={r['phase']} exc={type(r['exc']).__name__}: {str(r['exc'])[:150]}"))
            if r["entered"]:
                violations.append(dict(cls="executor_entered_for_over_budget_plan", msg=f"{tag}: execute_dag was entered"))
            if d.get("sets") or d.get("deletes") or d.get("data_gets") or d.get("keys") or d.get("source_data_gets"):
                violations.append(dict(cls="side_effects_before_refusal", msg=f"{tag}: stores saw {d}"))
        elif r.get("over") is False:
            if r["phase"] == "plan" and isinstance(r["exc"], ValueError) and "exceeds allowed_mem" in str(r["exc"]):
                violations.append(dict(cls="fitting_plan_refused", msg=f"{tag}: {str(r['exc'])[:150]}"))
            elif r["phase"] is None:
                admitted += 1
                if not r["entered"]:
                    violations.append(dict(cls="admitted_plan_not_executed", msg=f"{tag}: executor never entered"))
                for vid, got in zip(r["requested"], r.get("results") or []):
                    if shadow.random[vid]:
                        continue
                    dd = G.compare(got, shadow.values[vid], exact=shadow.exact[vid], lowprec=shadow.lowprec[vid])
                    if dd is not None:
                        violations.append(dict(cls="wrong_value", msg=f"{tag}: value {vid}: {dd}"))
        elif r["phase"] in ("build", "plan_build", "spec"):
            # refused while building: nothing may have happened either
            if d.get("sets") or d.get("deletes") or d.get("data_gets") or d.get("keys"):
                violations.append(dict(cls="side_effects_before_refusal", msg=f"{tag}: refused in {r['phase']} but stores saw {d}"))
    counters = dict(budgets_tried=len(recs), refused_at_admission=refused, admitted_and_executed=admitted,
                    exact_boundary_probes=sum(1 for r in recs if r.get("P") is not None and r["allowed"] in (r["P"], r["P"] - 1, r["P"] + 1)),
                    build_declines=sum(1 for r in recs if r["phase"] in ("build", "plan_build")),
                    fused_plans=sum(1 for r in recs if r.get("n_ops") and r["n_ops"][1] < r["n_ops"][0]))
    counters["sink_" + case["sink"]] = 1
    counters["opt_" + (case.get("opt") or {}).get("kind", "off")] = 1
    for o in PR.ops_used(case["prog"]):
        counters["op_" + o] = 1
    import hashlib

    h = hashlib.sha256()
    vt = 0.0
    for r in recs:
        s = r.get("sim")
        if s is not None:
            h.update(events_digest(s, extra=(r["allowed"], r.get("P"), r.get("over"), str(r["phase"]), r["entered"])).encode())
            vt += s.now
    dg = h.hexdigest()
    return dict(violations=violations, violation=violations[0] if violations else None, digest=dg,
                sig=sig_of(case["prog"], [r["allowed"] for r in recs], dg), nontrivial=refused > 0 and admitted > 0,
                counters=counters, vtime=vt, tape=list(tape.record),
                outcome=dict(budgets=[(r["tag"], r["allowed"], r.get("P"), r.get("over"), r["phase"]) for r in recs]))


def shrink(case):
    for c in c01.shrink(case):
        yield c
    if case.get("reserved_mem"):
        c = copy.deepcopy(case)
        c["reserved_mem"] = 0
        yield c
    if case.get("sink") != "compute":
        c = copy.deepcopy(case)
        c["sink"] = "compute"
        yield c


def known(case, violation):
    from checks import findings

    return findings.match(ID, case, violation)
