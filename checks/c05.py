"""C05 - every stored chunk has exactly one writer task, written whole; outputs covered.

Two oracles on the same fault-free run:

1. history invariant (any schedule), from the store trace and the write monitor:
   each stored data key (chunk, or shard for sharded arrays, per field for
   structured dtypes) is committed by tasks of exactly one (operation, task
   input); every array write a task issues covers, geometrically, the full
   extent of every stored chunk it touches; the keys written for an array are
   exactly the keys of its storage grid (inside the region for region stores);
2. consequence under interleaving: the same program under two-phase / spread
   execution with overlapping tasks still produces NumPy's values.
"""
from __future__ import annotations

import json
import math

import numpy as np

from checks import c01, c11
from checks import progrun as PR
from checks.common import sig_of
from gen import programs as G
from gen import stores as S
from sim import harness as H
from sim.monitor import covers_whole_chunks, storage_grid, write_monitor
from sim.store import array_of_key, is_data_key
from sim.tape import Tape

ID = "C05"
LEVEL = "exploration"
RULE = (
    "each run = (a) a generated program biased to rechunks (regular and irregular intermediate grids; allowed_mem drawn "
    "from {200 MB, 2 MB, 100 kB, 20 kB} so copy chunks and the number of rechunk stages vary), multi-output ops and "
    "reductions, or (b) a store scenario (existing Zarr targets of any chunking / sharding, region stores, new "
    "targets, repeated sources); fault-free; seeded executor, optimizer, task mode (atomic / two-phase / spread) and "
    "schedule. Non-trivial = >= 2 operations executed and >= 1 array with more than one stored chunk written; "
    "distinct = distinct (workload, configuration, digest)."
)
ASSUMPTIONS = c01.ASSUMPTIONS + [
    "task writes go through zarr.Array.__setitem__ (write monitor); 'whole chunk' is decided geometrically from the "
    "selection and the array's storage grid, not from the presence of a read (Zarr issues benign reads itself)",
]
COMPONENTS = c01.COMPONENTS


def budget(tier):
    if tier == "quick":
        return dict(runs=2000, minutes=None, chunk=30, chunk_wall=900)
    return dict(runs=None, minutes=20.0, chunk=40, chunk_wall=1200)


def generate(tp: Tape, tier: str):
    if tp.coin(2, 5):
        case = c11.generate(tp, tier)
        case["kind"] = "store"
        return case
    if tp.coin(1, 3):
        return generate_rechunk_case(tp, tier)
    profile = tp.weighted([("rechunk", 6), ("multi", 2), ("reduce", 2), ("general", 2)])
    case = c01.generate(tp, tier, profile=profile, max_extent=tp.choice([12, 20]) if tier == "quick" else tp.choice([12, 24, 40]))
    case["allowed_mem"] = tp.choice([200_000_000, 2_000_000, 100_000, 20_000])
    case["sim"]["mode"] = tp.choice(["two_phase", "spread", "two_phase", "atomic"])
    return case


def generate_rechunk_case(tp: Tape, tier: str):
    """A single (possibly multi-stage) rechunk of a larger 2-d/3-d array with a memory budget
    between one chunk and the whole array, so that the planner has to produce several stages."""
    ndim = tp.choice([2, 2, 3])
    big = 240 if tier == "quick" else 600
    shape = [tp.randint(8, big if d == ndim - 1 else 60) for d in range(ndim)]
    while math.prod(shape) > (40_000 if tier == "quick" else 150_000):
        i = shape.index(max(shape))
        shape[i] = max(4, shape[i] // 2)

    def skinny(axis_long):
        cs = []
        for d, n in enumerate(shape):
            if d == axis_long:
                cs.append(tp.randint(max(1, n // 3), n))
            else:
                cs.append(tp.randint(1, max(1, n // 6)))
        return cs

    a_long = tp.below(ndim)
    b_long = (a_long + 1 + tp.below(ndim - 1)) % ndim
    src_chunks = skinny(a_long) if tp.coin(3, 4) else G.gen_chunks(tp, shape)
    tgt_chunks = skinny(b_long) if tp.coin(3, 4) else G.gen_chunks(tp, shape)
    def cap(cs):
        # keep the number of stored chunks (and so the number of store operations per task) moderate
        cs = list(cs)
        while math.prod(-(-n // c) for n, c in zip(shape, cs)) > 400:
            i = max(range(len(cs)), key=lambda d: -(-shape[d] // cs[d]))
            cs[i] = min(shape[i], cs[i] * 2)
        return cs

    src_chunks, tgt_chunks = cap(src_chunks), cap(tgt_chunks)
    dtype = tp.choice(["float64", "int64", "int32", "int8"])
    itemsize = np.dtype(dtype).itemsize
    nbytes = math.prod(shape) * itemsize
    src_mem = math.prod(src_chunks) * itemsize
    tgt_mem = math.prod(tgt_chunks) * itemsize
    # rechunker_max_mem = allowed_mem // ~5: choose allowed so that max_mem is a small multiple of the larger chunk
    factor = tp.choice([1, 1, 2, 3, 6, 20])
    allowed = max(src_mem, tgt_mem) * 6 * factor + 64
    p = dict(chunks=tgt_chunks)
    if tp.coin(1, 2):
        p["allow_irregular"] = False
    if tp.coin(1, 2):
        p["min_mem"] = tp.choice([0, max(src_mem, tgt_mem) // 8 + 1, max(src_mem, tgt_mem) // 2 + 1, min(src_mem, tgt_mem)])
    prog = dict(inputs=[dict(shape=shape, chunks=src_chunks, dtype=dtype, src=tp.choice(["asarray", "from_zarr"]),
                             data_seed=tp.randint(0, 10**6), nan=False)],
                steps=[dict(op="rechunk", args=[0], p=p)], outputs=[1])
    case = dict(kind="prog", prog=prog, profile="rechunk_plan", avoided=True,
                exec=H.exec_cfg_from_tape(tp, kinds=("threads", "processes", "single")),
                sim=H.sim_cfg_from_tape(tp, modes=("two_phase", "spread", "atomic")),
                opt=tp.choice([dict(kind="off"), dict(kind="default")]), allowed_mem=int(allowed), compressor=None,
                py_seed=tp.randint(0, 10**6), sched_seed=tp.randint(0, 2**62))
    return case


def execute(case, sched=None):
    records = []
    violations = []
    infos = []
    if case.get("kind") == "store":
        rr, infos, out = c11.run_scenario(case, sched, monitor_records=records)
        accepted = out["accepted"]
        rr.phase = out["phase"]
        rr.exc = out["exc"]
        # content check (consequence under interleaving) is C11's oracle, reused
        if accepted:
            import zarr

            for k, ti in enumerate(infos):
                if ti.expected is None:
                    continue
                try:
                    ti.store.sh.tracing = False
                    got = zarr.open_array(store=ti.store, path=ti.path, mode="r")[...]
                except Exception:  # noqa: BLE001
                    continue
                d = G.compare(np.asarray(got), ti.expected, exact=ti.exact, lowprec=ti.lowprec)
                if d is not None:
                    violations.append(dict(cls="wrong_value_under_interleaving", msg=f"target {k} ({ti.desc}): {d}",
                                           shared_ancestry=out.get("shared_ancestry"), n_pairs=len(infos)))
    else:
        with PR.Session(case, sched) as rr:
            ok = PR.build_program(rr)
            accepted = False
            if ok:
                with write_monitor(rr.sim, records):
                    rr.results, rr.phase, rr.exc = PR.compute(rr)
                accepted = rr.results is not None
        if accepted:
            shadow = G.shadow_of(case["prog"])
            for vid, d in PR.compare_results(rr, shadow):
                violations.append(dict(cls="wrong_value_under_interleaving", msg=f"value {vid}: {d}"))
    counters = c01.run_counters(rr, case) if rr.sim else {}
    multi_chunk_arrays = 0
    if accepted:
        vs, multi_chunk_arrays, nkeys = history_invariant(rr, infos, records)
        for v in vs:
            v.setdefault("shared_ancestry", out.get("shared_ancestry") if case.get("kind") == "store" else None)
            v.setdefault("n_pairs", len(infos))
        violations = vs + violations
        counters["stored_keys_checked"] = nkeys
        counters["array_writes_checked"] = len(records)
    if isinstance(rr.exc, (H.SimHang, H.SimStepLimit)):
        violations.append(dict(cls="hang", msg=str(rr.exc)))
    counters["kind_" + case.get("kind", "prog")] = 1
    dg = PR.digest(rr, extra=(len(records),))
    nontrivial = accepted and counters.get("ops_executed", 0) >= 2 and multi_chunk_arrays >= 1
    return dict(violations=violations, violation=violations[0] if violations else None, digest=dg,
                sig=sig_of(case.get("prog"), case.get("pairs"), case["exec"], dg), nontrivial=nontrivial,
                counters=counters, vtime=rr.sim.now, tape=list(rr.tape.record),
                outcome=dict(phase=rr.phase, exc=repr(rr.exc)[:200] if rr.exc else None))


def arrays_in_store(store):
    """{array path: metadata dict} for every array node in the durable store."""
    out = {}
    for key in store.keys():
        if key.endswith("zarr.json"):
            try:
                md = json.loads(bytes(store._store_dict[key].to_bytes()))
            except Exception:  # noqa: BLE001
                continue
            if md.get("node_type") == "array":
                out[array_of_key(key)] = md
    return out


def grid_of_metadata(md):
    """Per-dimension tuple of stored-object extents, from a zarr.json document."""
    shape = md["shape"]
    cg = md["chunk_grid"]
    cfg = cg["configuration"]
    if cg["name"] == "regular":
        cs = cfg["chunk_shape"]
        out = []
        for n, c in zip(shape, cs):
            if n == 0:
                out.append(())
                continue
            full, rem = divmod(n, c)
            out.append((c,) * full + ((rem,) if rem else ()))
        return tuple(out)
    dims = []
    for dim in cfg["chunk_shapes"]:
        if isinstance(dim, int):
            raise ValueError("unexpected rectilinear encoding")
        ext = []
        for e in dim:
            if isinstance(e, list):
                ext.extend([e[0]] * e[1])
            else:
                ext.append(e)
        dims.append(tuple(ext))
    return tuple(dims)


def key_coords(key):
    tail = key.split("/c/", 1)[1] if "/c/" in key else key[2:]
    return tuple(int(x) for x in tail.split("/")) if tail else ()


def history_invariant(rr, infos, records):
    vs = []
    nkeys = 0
    multi = 0
    target_by_store = {id(ti.store): ti for ti in infos}
    stores = [rr.store] + [ti.store for ti in infos]
    for st in stores:
        writers = {}
        for (seq, t, job, op, key, outcome, nbytes, sha) in st.trace:
            if op == "commit" and outcome == "ok" and is_data_key(key) and job is not None:
                writers.setdefault(key, set()).add((job[0], job[1]))
        # (1) one writer per stored key
        for key, ws in writers.items():
            nkeys += 1
            if len(ws) > 1:
                vs.append(dict(cls="stored_chunk_written_by_several_tasks",
                               msg=f"{st.sh.name}:{key} written by {len(ws)} different tasks: {sorted(map(str, ws))[:3]}",
                               store=st.sh.name))
                break
        # (3) coverage
        ti = target_by_store.get(id(st))
        for path, md in arrays_in_store(st).items():
            try:
                grid = grid_of_metadata(md)
            except Exception:  # noqa: BLE001
                continue
            prefix = (path + "/c/") if path else "c/"
            written = {k for k in writers if k.startswith(prefix) or k == prefix.rstrip("/")}
            if not written and ti is None and not any(k.startswith(path + "/") for k in writers):
                # array created but never written by a task of this computation (e.g. an input)
                if md["shape"] and math.prod(md["shape"]) > 0 and st is rr.store:
                    # intermediate arrays are always produced by the computation
                    vs.append(dict(cls="output_chunks_not_covered", msg=f"{st.sh.name}:{path}: no chunk written"))
                continue
            want = expected_keys(prefix, grid, md, ti)
            if want is None:
                continue
            if len(want) > 1:
                multi += 1
            if ti is not None and ti.zarr is None and ti.expected is None:
                continue
            missing = want - written
            extra = written - want
            if missing:
                vs.append(dict(cls="output_chunks_not_covered",
                               msg=f"{st.sh.name}:{path}: {len(missing)} of {len(want)} stored chunks never written, e.g. {sorted(missing)[:3]}"))
            if extra:
                vs.append(dict(cls="chunk_written_outside_grid_or_region",
                               msg=f"{st.sh.name}:{path}: keys written outside the expected set: {sorted(extra)[:3]}"))
    # (2) whole-chunk writes
    for r in records:
        if r.job is None or r.bounds is None or r.grid is None:
            continue
        if not covers_whole_chunks(r.bounds, r.grid):
            vs.append(dict(cls="partial_chunk_write",
                           msg=f"task {r.job} wrote region {r.selection} of array {r.path or '<root>'} (shape {r.array_shape}) which does not cover whole stored chunks of grid {summ(r.grid)}",
                           sharded=bool(any(False for _ in ()))))
            break
    return vs, multi, nkeys


def summ(grid):
    return tuple(g if len(g) <= 4 else (g[0], "...", g[-1], f"n={len(g)}") for g in grid)


def expected_keys(prefix, grid, md, ti):
    """Set of data keys the computation must write for this array."""
    import itertools

    if any(len(g) == 0 for g in grid):
        return set()
    ranges = [range(len(g)) for g in grid]
    if ti is not None and ti.region is not None and ti.zarr is not None:
        # only stored objects intersecting the region
        ranges = []
        for (r, g) in zip(ti.region, grid):
            acc = 0
            idx = []
            for i, c in enumerate(g):
                lo, hi = acc, acc + c
                if lo < r.stop and hi > r.start:
                    idx.append(i)
                acc = hi
            ranges.append(idx)
    sep = md.get("chunk_key_encoding", {}).get("configuration", {}).get("separator", "/")
    if not grid:
        return {prefix.rstrip("/")} if prefix.endswith("c/") else {prefix}
    return {prefix + sep.join(str(i) for i in coords) for coords in itertools.product(*ranges)}


def shrink(case):
    if case.get("kind") == "store":
        yield from c11.shrink(case)
    else:
        yield from c01.shrink(case)


def known(case, violation):
    from checks import findings

    return findings.match(ID, case, violation)
