"""C06 - tasks are idempotent and independent of order, repetition and placement.

The program is built twice from reset name counters (same names, same store
keys).  Reference execution: canonical order, atomic, no repetition.
Adversarial execution: seeded permutation of every operation's tasks (pool
timing), failed attempts *after* the body wrote (so the retry runs the body
again), transient storage errors in the middle of a body (the retry re-reads), stragglers with backup twins, zombie re-executions placed immediately,
after the operation's end and after downstream operations started, tasks
shipped through cloudpickle (processes path).  Oracle: the durable bytes of
every key in the store and the final results are equal between the two
executions and equal NumPy; every repeated commit of a key carries bytes
identical to the first; distinct blocks of a random array differ.
"""
from __future__ import annotations

import contextlib

import numpy as np

from checks import c01
from checks import progrun as PR
from checks.common import sig_of
from gen import programs as G
from sim import harness as H
from sim.store import is_data_key
from sim.tape import Tape

ID = "C06"
LEVEL = "fault_enumeration"
RULE = (
    "each run = one seeded program executed twice from reset name counters: reference (single-threaded, atomic) and "
    "adversarial (threads/processes on the simulated pool with seeded start jitter and durations = task order "
    "permutation, two-phase/spread commits, first attempts failing after the body wrote, stragglers with backups, "
    "zombie re-executions up to 40 virtual seconds late, cloudpickle round trip). Non-trivial = at least one task "
    "body executed more than once (retry, backup or zombie) or tasks completed out of submission order; distinct = "
    "distinct (program, fault configuration, digest)."
)
ASSUMPTIONS = c01.ASSUMPTIONS + [
    "a zombie re-execution models the thread that Future.cancel() cannot stop; it uses the same pickled/bound task",
    "placement: in 1/8 (quick) or 1/4 (thorough) of the runs task bodies execute in fresh interpreters (spawned per run, one or two per run) from their pickled form, with all store traffic served by the simulated store; elsewhere the processes path round-trips through cloudpickle in-process",
]
COMPONENTS = c01.COMPONENTS


PLACE_ODDS = dict(quick=(1, 8), thorough=(1, 4))


class InjectedTaskError(Exception):
    pass


def budget(tier):
    if tier == "quick":
        return dict(runs=1600, minutes=None, chunk=25, chunk_wall=900)
    return dict(runs=None, minutes=20.0, chunk=30, chunk_wall=1200)


def generate(tp: Tape, tier: str):
    profile = tp.weighted([("general", 5), ("rechunk", 3), ("multi", 3), ("reduce", 2)])
    case = c01.generate(tp, tier, profile=profile, max_outputs=3, min_steps=2)
    kind = tp.choice(["threads", "threads", "processes"])
    case["exec"] = dict(kind=kind, max_workers=tp.choice([1, 2, 3, 4, 8]), batch_size=tp.choice([None, None, 2, 4]),
                        compute_arrays_in_parallel=tp.choice([None, True]))
    use_backups = tp.coin(1, 2)
    if use_backups:
        case["exec"]["use_backups"] = True
    case["sim"] = dict(
        mode=tp.choice(["atomic", "two_phase", "spread"]),
        dur=tp.choice(["grid", "heavy"]),
        start_jitter=tp.choice([0, 1]),
        coalesce=tp.choice([0, 1, 2]),
        eager=tp.choice([0, 1]),
        tie_sim_first=tp.choice([0, 1]),
        zombie_num=tp.choice([0, 2, 4, 8]),
        zombie_late=tp.choice([0, 1, 1]),
        straggle_num=tp.choice([0, 4, 8]) if use_backups else 0,
    )
    case["fail_after_write_num"] = tp.choice([0, 0, 1, 3]) if kind == "threads" else 0
    # F5 inside a task: a transient storage error on one read or write in the middle of the body (at most one per
    # submission, so the executor's retry budget always suffices): the retry re-executes a body that had already
    # read - and possibly written - part of its data
    case["io_fault_num"] = tp.choice([0, 0, 2, 6]) if kind == "threads" else 0
    case["opt"] = tp.choice([dict(kind="off"), dict(kind="default"), dict(kind="default")])
    # placement: some runs execute (some of) their task bodies in fresh interpreters, from the serialized form
    if tp.coin(*PLACE_ODDS.get(tier, (1, 8))):
        case["place"] = dict(num=tp.choice([16, 16, 8]), workers=tp.choice([1, 2]),
                             how="pickle" if kind == "processes" else "cloudpickle")
        case["fail_after_write_num"] = 0  # (the injecting wrapper closes over the simulator and cannot be shipped)
    return case


@contextlib.contextmanager
def fail_after_body(sim, num):
    """F1: the first attempt of some tasks raises after the real body has written."""
    import cubed.runtime.executors.local as crl

    if not num:
        yield
        return
    orig = crl.run_func_threads
    seen = set()

    def wrapped(input, **kwargs):
        r = orig(input, **kwargs)
        job = sim.current_job
        key = (job.jid if job is not None else None)
        if key not in seen and sim.tape.coin(num, 16):
            seen.add(key)
            sim.count("injected_failure_after_write")
            raise InjectedTaskError(f"injected failure after task body wrote ({kwargs.get('name')}, {input})")
        return r

    crl.run_func_threads = wrapped
    try:
        yield
    finally:
        crl.run_func_threads = orig


@contextlib.contextmanager
def transient_io_faults(rr, num):
    """One injected error per submission at most, on a data-key get/set chosen from the tape."""
    from sim.store import InjectedIOError

    if not num:
        yield
        return
    sim = rr.sim
    hit = set()

    def hook(store, op, key):
        job = sim.current_job
        if job is None or job.zombie_of is not None or op not in ("get", "set") or not is_data_key(key):
            return
        if job.jid in hit:
            return
        if sim.tape.coin(num, 64):
            hit.add(job.jid)
            sim.count("transient_io_fault_in_task")
            sim.emit("FAULT", op, key, store.sh.current_job)
            raise InjectedIOError(f"injected storage fault on {op} {key}")

    for st in (rr.store, rr.src_store):
        st.sh.fault_hook = hook
    try:
        yield
    finally:
        for st in (rr.store, rr.src_store):
            st.sh.fault_hook = None


def execute(case, sched=None):
    violations = []
    # ---- reference ---------------------------------------------------------------
    ref = dict(case)
    ref["exec"] = dict(kind="single")
    ref["sim"] = dict(mode="atomic", dur="zero")
    with PR.Session(ref, None) as r0:
        ok0 = PR.build_program(r0)
        res0 = None
        if ok0:
            res0, ph0, ex0 = PR.compute(r0)
        snap0 = r0.store.snapshot() if r0.store else {}
    if res0 is None:
        dg = "declined"
        return dict(violations=[], violation=None, digest=dg, sig=sig_of(case["prog"], dg), nontrivial=False,
                    counters={"reference_declined": 1}, vtime=0.0, tape=[], outcome=dict(phase="reference_declined"))
    # ---- adversarial -----------------------------------------------------------------
    with PR.Session(case, sched) as rr:
        ok = PR.build_program(rr)
        if ok:
            pl = None
            if case.get("place"):
                from sim.remote import Placement

                pl = rr.sim.placement = Placement(rr.sim, **case["place"])
            try:
                with fail_after_body(rr.sim, case.get("fail_after_write_num", 0)), \
                        transient_io_faults(rr, case.get("io_fault_num", 0)):
                    rr.results, rr.phase, rr.exc = PR.compute(rr)
            finally:
                if pl is not None:
                    pl.close()
        snap1 = rr.store.snapshot()
    sim = rr.sim
    shadow = G.shadow_of(case["prog"])
    if rr.results is None:
        if isinstance(rr.exc, (H.SimHang, H.SimStepLimit)):
            violations.append(dict(cls="hang", msg=str(rr.exc)))
        else:
            violations.append(dict(cls="adversarial_run_failed",
                                   msg=f"reference run computed, adversarial run failed in {rr.phase}: {type(rr.exc).__name__}: {str(rr.exc)[:200]} at {PR.exc_where(rr.exc)}",
                                   exc_type=type(rr.exc).__name__, where=PR.exc_where(rr.exc)))
    else:
        for vid, d in PR.compare_results(rr, shadow):
            violations.append(dict(cls="wrong_value", msg=f"value {vid}: {d}"))
        for vid, a, b in zip(rr.requested, res0, rr.results):
            if not np.array_equal(np.asarray(a), np.asarray(b), equal_nan=True) and np.asarray(a).dtype.kind in "iufbc":
                violations.append(dict(cls="result_differs_from_reference", msg=f"value {vid} differs between reference and adversarial execution"))
        # stored bytes
        k0, k1 = set(snap0), set(snap1)
        if k0 != k1:
            violations.append(dict(cls="store_keys_differ", msg=f"only in reference: {sorted(k0 - k1)[:4]}; only in adversarial: {sorted(k1 - k0)[:4]}"))
        else:
            diff = [k for k in sorted(k0) if snap0[k] != snap1[k] and is_data_key(k)]
            if diff:
                violations.append(dict(cls="stored_chunk_differs", msg=f"{len(diff)} chunk keys hold different bytes than in the reference execution, e.g. {diff[:3]}"))
        # repeated commits identical
        first = {}
        for (seq, t, job, op, key, outcome, nbytes, sha) in rr.store.trace:
            if op == "commit" and outcome == "ok" and is_data_key(key):
                if key in first and first[key][0] != sha:
                    violations.append(dict(cls="repeated_write_differs",
                                           msg=f"key {key} written with different bytes by {first[key][1]} and {job}"))
                    break
                first.setdefault(key, (sha, job))
        # random arrays: distinct blocks differ
        for vid, got in zip(rr.requested, rr.results):
            if shadow.random[vid] and shadow.producer[vid] >= 0:
                st = case["prog"]["steps"][shadow.producer[vid]]
                if st["op"] == "create" and st["p"].get("fn") == "random":
                    g = np.asarray(got)
                    blocks = _blocks(g, st["p"]["chunks"])
                    big = [b for b in blocks if b.size >= 4]
                    for i in range(len(big)):
                        for j in range(i + 1, len(big)):
                            if big[i].shape == big[j].shape and np.array_equal(big[i], big[j]):
                                violations.append(dict(cls="random_blocks_identical", msg=f"value {vid}: two distinct blocks hold identical random numbers"))
                                break
    # non-triviality
    bodies = {}
    order_swapped = 0
    last_submit = -1
    for e in sim.events:
        if e[2] in ("start", "zombie_start"):
            lab = e[4]
            key = (lab[0], lab[1])
            bodies[key] = bodies.get(key, 0) + 1
    completes = [e[3] for e in sim.events if e[2] == "complete"]
    order_swapped = int(completes != sorted(completes))
    repeated = (sum(1 for v in bodies.values() if v > 1) + sim.counters.get("injected_failure_after_write", 0)
                + sim.counters.get("transient_io_fault_in_task", 0))
    counters = c01.run_counters(rr, case)
    counters["tasks_executed_more_than_once"] = repeated
    counters["runs_with_repetition"] = int(repeated > 0)
    counters["runs_with_reordered_completion"] = order_swapped
    counters["backups_launched"] = sum(1 for e in sim.events if e[2] == "submit" and e[4][2] > 0)
    dg = PR.digest(rr)
    return dict(violations=violations, violation=violations[0] if violations else None, digest=dg,
                sig=sig_of(case["prog"], case["exec"], case["sim"], dg),
                nontrivial=rr.results is not None and (repeated > 0 or order_swapped > 0),
                counters=counters, vtime=sim.now, tape=list(rr.tape.record),
                outcome=dict(phase=rr.phase, exc=repr(rr.exc)[:200] if rr.exc else None))


def _blocks(a, chunks):
    if a.ndim == 0:
        return [a]
    out = [a]
    for ax, c in enumerate(chunks):
        nxt = []
        for b in out:
            for s in range(0, b.shape[ax], max(c, 1)):
                sl = [slice(None)] * b.ndim
                sl[ax] = slice(s, s + max(c, 1))
                nxt.append(b[tuple(sl)])
        out = nxt
    return out


def shrink(case):
    import copy

    yield from c01.shrink(case)
    if case.get("place"):
        c = copy.deepcopy(case)
        c.pop("place")
        yield c
        if case["place"]["workers"] > 1 or case["place"]["num"] < 16:
            c = copy.deepcopy(case)
            c["place"].update(workers=1, num=16)
            yield c
    for key, val in (("zombie_num", 0), ("straggle_num", 0), ("mode", "atomic"), ("zombie_late", 0)):
        if case["sim"].get(key) != val:
            c = copy.deepcopy(case)
            c["sim"][key] = val
            yield c
    for key in ("fail_after_write_num", "io_fault_num"):
        if case.get(key):
            c = copy.deepcopy(case)
            c[key] = 0
            yield c


def known(case, violation):
    from checks import findings

    return findings.match(ID, case, violation)
