"""C07 - executors never let a task read data its producers have not finished writing."""
from __future__ import annotations

from checks import c01
from checks import progrun as PR
from checks.common import sig_of
from gen import programs as G
from sim import harness as H
from sim.store import array_of_key, is_data_key
from sim.tape import Tape

ID = "C07"
LEVEL = "exploration"
RULE = (
    "programs biased to independent branches, diamonds, multi-output ops and chains with unequal task counts, several "
    "requested outputs; real ThreadsExecutor / ProcessesExecutor on SimPool and the real SingleThreadedExecutor; "
    "options compute_arrays_in_parallel, batch_size, max_workers; two-phase / spread commit with seeded latencies "
    "(writes land late); no faults, no repetitions. Invariants on the log: (i) every data-chunk get of a produced "
    "array by a task that does not itself write that key happens after the key's final commit and hits; (ii) an "
    "array's zarr.json commit precedes every other access to the array; (iii) an operation's first task start "
    "follows the completion of the last task of every operation producing its inputs, and create-arrays completes "
    "before any other task starts; (iv) final values equal NumPy. Non-trivial = >= 2 dependent operations executed "
    "under a parallel executor or >= 3 operations; distinct = distinct (program, configuration, digest)."
)
ASSUMPTIONS = c01.ASSUMPTIONS + [
    "the claim is about the schedules the real async_map_dag admits when pool timing is adversarial; Zarr-internal "
    "ordering inside one array call is not examined",
]
COMPONENTS = c01.COMPONENTS


def budget(tier):
    if tier == "quick":
        return dict(runs=2400, minutes=None, chunk=30, chunk_wall=900)
    return dict(runs=None, minutes=20.0, chunk=40, chunk_wall=1200)


def generate(tp: Tape, tier: str):
    profile = tp.weighted([("multi", 3), ("general", 4), ("elemwise", 3), ("rechunk", 2), ("reduce", 2)])
    case = c01.generate(tp, tier, profile=profile, max_outputs=4, min_steps=3)
    # parallel executors and late-landing writes dominate
    case["exec"] = H.exec_cfg_from_tape(tp, kinds=("threads", "threads", "processes", "single"))
    case["sim"] = H.sim_cfg_from_tape(tp, modes=("two_phase", "spread", "two_phase", "atomic"))
    case["sim"]["dur"] = tp.choice(["grid", "heavy", "heavy"])
    case["opt"] = tp.choice([dict(kind="off"), dict(kind="off"), dict(kind="default")])
    return case


def execute(case, sched=None):
    rr = PR.run_program(case, sched)
    violations = []
    if rr.results is not None and rr.cb is not None and getattr(rr.cb, "dag", None) is not None:
        violations = oracle(rr)
        shadow = G.shadow_of(case["prog"])
        for vid, d in PR.compare_results(rr, shadow):
            violations.append(dict(cls="wrong_value", msg=f"value {vid}: {d}"))
    if isinstance(rr.exc, (H.SimHang, H.SimStepLimit)):
        violations.append(dict(cls="hang", msg=str(rr.exc)))
    counters = c01.run_counters(rr, case)
    dg = PR.digest(rr)
    par = case["exec"]["kind"] != "single"
    nops = counters.get("ops_executed", 0)
    nontrivial = rr.results is not None and ((par and nops >= 2) or nops >= 3)
    return dict(violations=violations, violation=violations[0] if violations else None, digest=dg,
                sig=sig_of(case["prog"], case["exec"], case["opt"], dg), nontrivial=nontrivial,
                counters=counters, vtime=rr.sim.now, tape=list(rr.tape.record),
                outcome=dict(phase=rr.phase, exc=repr(rr.exc)[:200] if rr.exc else None))


def oracle(rr):
    vs = []
    sim = rr.sim
    trace = rr.store.trace
    # ---- (i)/(ii) store-level ------------------------------------------------
    final_commit = {}  # key -> seq of last commit
    writers = {}  # key -> set of job labels
    meta_commit = {}  # array path -> seq of first zarr.json commit
    for (seq, t, job, op, key, outcome, nbytes, sha) in trace:
        if op == "commit" and outcome == "ok":
            final_commit[key] = seq
            writers.setdefault(key, set()).add(job)
            if key.endswith("zarr.json"):
                meta_commit.setdefault(array_of_key(key), seq)
        elif op == "set" and outcome == "buffered":
            writers.setdefault(key, set()).add(job)
    n_reads = 0
    for (seq, t, job, op, key, outcome, nbytes, sha) in trace:
        if job is None:
            continue  # client-side access (result read-back, resume checks)
        arr = array_of_key(key)
        if op == "get" and is_data_key(key):
            if job in writers.get(key, ()):
                continue
            n_reads += 1
            fc = final_commit.get(key)
            if fc is None:
                vs.append(dict(cls="read_of_never_written_chunk", msg=f"task {job} read {key} ({outcome}) which no task ever wrote"))
                break
            if fc > seq:
                vs.append(dict(cls="premature_read",
                               msg=f"task {job} read {key} ({outcome}) at seq {seq}, but its final value was committed at seq {fc} by {sorted(map(str, writers.get(key, [])))[:2]}"))
                break
            if outcome != "hit":
                vs.append(dict(cls="read_miss", msg=f"task {job} read {key}: {outcome}"))
                break
        if arr in meta_commit and op in ("get", "set", "commit") and is_data_key(key) and job[0] != "create-arrays":
            if seq < meta_commit[arr]:
                vs.append(dict(cls="access_before_array_created", msg=f"{op} {key} by {job} at seq {seq} before metadata commit {meta_commit[arr]}"))
                break
    sim.count("consumer_reads_checked", n_reads)
    # ---- (iii) operation-level ---------------------------------------------------
    dag = rr.cb.dag
    first_start, last_done = {}, {}
    for e in sim.events:
        if e[2] == "start":
            name = e[4][0]
            first_start.setdefault(name, e[0])
        elif e[2] == "complete":
            name = e[4][0]
            last_done[name] = e[0]
    ops = [n for n, d in dag.nodes(data=True) if d.get("primitive_op") is not None]
    for b in ops:
        if b not in first_start:
            continue
        for arr in dag.predecessors(b):
            for a in dag.predecessors(arr):
                if a in last_done and last_done[a] > first_start[b]:
                    vs.append(dict(cls="operation_started_before_producer_finished",
                                   msg=f"{b} started (seq {first_start[b]}) before producer {a} of {arr} finished (seq {last_done[a]})"))
    if "create-arrays" in last_done:
        for b in ops:
            if b != "create-arrays" and b in first_start and first_start[b] < last_done["create-arrays"]:
                vs.append(dict(cls="task_before_array_creation", msg=f"{b} started before create-arrays finished"))
    return vs


shrink = c01.shrink


def known(case, violation):
    from checks import findings

    return findings.match(ID, case, violation)
