"""C08 - task failures are retried and surfaced, never dropped; one result per task.

Layer (a): the real ``async_map_unordered`` (and through it the real
``threads_create_futures_func`` + tenacity wrapper, or
``processes_create_futures_func`` + cloudpickle) is driven on the VirtualLoop
by a scenario with scripted attempt outcomes and durations for every
submission the code makes.

Layer (b) (end to end, storage faults on a chosen chunk key) lives in
``c08_e2e`` and is dispatched from here by ``case['kind']``.
"""
from __future__ import annotations

import asyncio
import contextlib
import io
import traceback

from checks.common import sig_of
from sim.core import Sim, activated, armed, events_digest
from sim.loop import SimHang, SimStepLimit
from sim.tape import Tape

ID = "C08"
LEVEL = "fault_enumeration"
RULE = (
    "each run = one seeded scenario: n inputs, use_backups, batch_size, retries, executor flavour "
    "(threads+tenacity / processes+cloudpickle), per-submission scripts of attempt outcomes "
    "(ok/fail) and durations on a small-integer time grid with stragglers, plus the schedule tape "
    "(worker count, simultaneous-completion coalescing, future hash order); for n<=3 the quick tier "
    "also walks all outcome assignments over a tiny alphabet. Non-trivial = at least one failed "
    "attempt, backup launch or batch refill happened; distinct = distinct (scenario, event-log digest)."
)
ASSUMPTIONS = [
    "real pools always resolve a submitted future (no lost results)",
    "a task attempt either raises or returns; no partial results",
    "asyncio (Future, wait, wrap_future, Task) and tenacity behave as in CPython 3.12 / tenacity 9.1",
]
COMPONENTS = {
    "real": [
        "cubed.runtime.asyncio.async_map_unordered", "cubed.runtime.backup.should_launch_backup",
        "cubed.runtime.executors.local.threads_create_futures_func",
        "cubed.runtime.executors.local.processes_create_futures_func / unpickle_and_call",
        "cubed.runtime.utils.batched", "tenacity.Retrying", "asyncio.wait / wrap_future / Future",
        "cloudpickle",
    ],
    "stub": ["thread/process pool -> SimPool", "selector + clock -> VirtualLoop",
             "task function -> scripted outcome table"],
}


def budget(tier):
    if tier == "quick":
        return dict(runs=48_000, minutes=None, chunk=1500, chunk_wall=600)
    return dict(runs=None, minutes=20.0, chunk=3000, chunk_wall=900)


class ScriptedError(Exception):
    def __init__(self, inp, sub, attempt):
        super().__init__(f"scripted failure input={inp} submission={sub} attempt={attempt}")
        self.inp, self.sub, self.attempt = inp, sub, attempt

    def __reduce__(self):
        return (ScriptedError, (self.inp, self.sub, self.attempt))


# ---------------------------------------------------------------------------
# generation
# ---------------------------------------------------------------------------

def _gen_script(tp: Tape, retries: int, fail_w: int, straggle_w: int):
    """One submission's script: number of failing attempts, per-attempt durations."""
    # k failing attempts before a success; k > retries means it never succeeds
    k = 0
    if fail_w and tp.coin(fail_w, 16):
        k = tp.randint(1, retries + 2)
    durs = []
    for _ in range(min(k, retries + 1) + 1):
        if straggle_w and tp.coin(straggle_w, 64):
            durs.append(tp.choice([12, 30, 60, 100]))
        else:
            durs.append(tp.randint(0, 4))
    return [k, durs]


def generate(tp: Tape, tier: str):
    kind = "sched"
    if tp.coin(1, 40):
        from checks import c08_e2e

        return c08_e2e.generate(tp, tier)
    if tier == "quick" and tp.coin(1, 12):
        return _generate_tiny(tp)
    n = tp.weighted([(0, 1), (1, 1), (2, 1), (3, 1), (tp.randint(4, 9), 3), (tp.randint(10, 14), 6),
                     (tp.randint(15, 40), 4)])
    use_backups = tp.coin(2, 3)
    retries = tp.choice([0, 1, 2])
    flavour = tp.weighted([("threads", 3), ("processes", 1)])
    bs = tp.weighted([(None, 3), ("lt", 3), ("ge", 1), (1, 1)])
    if bs == "lt":
        bs = tp.randint(1, max(1, n - 1))
    elif bs == "ge":
        bs = n + tp.randint(0, 3) if n > 0 else 1
    fail_w = tp.choice([0, 0, 1, 2, 4])
    straggle_w = tp.choice([0, 2, 4, 8]) if use_backups else tp.choice([0, 2])
    scripts = []
    for _ in range(n):
        scripts.append([_gen_script(tp, retries, fail_w, straggle_w),
                        _gen_script(tp, retries, fail_w, straggle_w // 2)])
    cfg = dict(
        dur="zero",
        mode="atomic",
        coalesce=tp.choice([0, 1, 1, 2]),
        eager=tp.choice([0, 1]),
        tie_sim_first=tp.choice([0, 1]),
        start_jitter=tp.choice([0, 0, 1]),
    )
    max_workers = tp.weighted([(n + 2, 3), (tp.randint(1, 4), 2), (tp.randint(5, 16), 2)])
    return dict(kind=kind, n=n, use_backups=use_backups, retries=retries, flavour=flavour,
                batch_size=bs, scripts=scripts, cfg=cfg, max_workers=max_workers,
                sched_seed=tp.randint(0, 2**62))


def _generate_tiny(tp: Tape):
    """Small alphabet, n<=3: outcome in {ok, fail-once, fail-always, straggle} per submission."""
    n = tp.randint(0, 3)
    retries = tp.choice([0, 1])
    alpha = [[0, [1]], [1, [1, 1]], [retries + 1, [1] * (retries + 1)], [0, [40]], [0, [0]]]
    scripts = [[tp.choice(alpha), tp.choice(alpha)] for _ in range(n)]
    bs = tp.choice([None, 1, 2, 3])
    return dict(kind="sched", n=n, use_backups=tp.coin(), retries=retries,
                flavour=tp.choice(["threads", "processes"]), batch_size=bs, scripts=scripts,
                cfg=dict(dur="zero", mode="atomic", coalesce=tp.choice([0, 2]), eager=tp.choice([0, 1]),
                         tie_sim_first=tp.choice([0, 1]), start_jitter=0),
                max_workers=tp.choice([1, 2, 8]), sched_seed=tp.randint(0, 2**62))


# ---------------------------------------------------------------------------
# scripted task function (module level so that cloudpickle ships it by reference)
# ---------------------------------------------------------------------------

_SCENARIO = {}


def scripted_task(i, **kwargs):
    import sim.core as sc

    sim = sc.CURRENT
    job = sim.current_job
    st = _SCENARIO["state"]
    sub = job_sub(job)
    k, durs = _SCENARIO["scripts"][i][min(sub, 1)]
    a = job.attempts
    job.attempts += 1
    job.extra_duration += float(durs[min(a, len(durs) - 1)])
    st["attempts"].setdefault((i, sub), 0)
    st["attempts"][(i, sub)] += 1
    if a < k:
        raise ScriptedError(i, sub, a)
    return i


def job_sub(job):
    return job.label[2]


def execute(case, sched=None):
    if case.get("kind") == "e2e":
        from checks import c08_e2e

        return c08_e2e.execute(case, sched)
    tape = Tape(case["sched_seed"]) if sched is None else Tape(replay=sched)
    sim = Sim(tape, case["cfg"])
    n = case["n"]
    retries = case["retries"]
    state = dict(attempts={}, subs={}, yielded=[], yield_times=[])
    _SCENARIO.clear()
    _SCENARIO.update(scripts=case["scripts"], state=state)

    def label_hook(job):
        # recover the input from the submitted call
        if case["flavour"] == "processes":
            import cloudpickle

            inp = cloudpickle.loads(job.args[1])
        else:
            inp = job.args[0]
        sub = state["subs"].get(inp, 0)
        state["subs"][inp] = sub + 1
        return ("map", inp, sub)

    sim.label_hook = label_hook
    completions = {}  # (inp, sub) -> (t, ok)

    def on_job_event(kind, job):
        if kind == "complete":
            completions[(job.label[1], job.label[2])] = (sim.now, job.exc is None)

    sim.on_job_event = on_job_event
    outcome = dict(kind=None, exc=None, where=None, t_end=None)
    out = io.StringIO()
    with activated(sim), contextlib.redirect_stdout(out):
        import cubed.runtime.executors.local as crl
        from cubed.runtime.asyncio import async_map_unordered

        pool = crl.ThreadPoolExecutor(max_workers=case["max_workers"])
        if case["flavour"] == "threads":
            cff = crl.threads_create_futures_func(pool, scripted_task, retries=retries)
        else:
            cff = crl.processes_create_futures_func(pool, scripted_task)

        async def main():
            async for r in async_map_unordered(
                cff, range(n), use_backups=case["use_backups"], batch_size=case["batch_size"],
            ):
                state["yielded"].append(r)
                state["yield_times"].append(sim.now)

        with armed(sim):
            try:
                asyncio.run(main())
                outcome["kind"] = "finished"
            except ScriptedError as e:
                outcome["kind"] = "task_error"
                outcome["exc"] = (e.inp, e.sub, e.attempt)
            except SimHang as e:
                outcome["kind"] = "hang"
                outcome["exc"] = str(e)
            except SimStepLimit as e:
                outcome["kind"] = "steplimit"
                outcome["exc"] = str(e)
            except BaseException as e:  # noqa: BLE001
                outcome["kind"] = "other_exception"
                outcome["exc"] = f"{type(e).__name__}: {e}"
                tb = traceback.extract_tb(e.__traceback__)
                cubed_frames = [f for f in tb if "/cubed/" in f.filename]
                fr = cubed_frames[-1] if cubed_frames else tb[-1]
                outcome["where"] = f"{fr.filename.split('/cubed/')[-1]}:{fr.name}"
                outcome["exc_type"] = type(e).__name__
            outcome["t_end"] = sim.now
        pool.shutdown(wait=False)
        try:
            sim.drain()
        except BaseException:  # noqa: BLE001
            pass

    eff_retries = retries if case["flavour"] == "threads" else 0
    violations = check_oracle(case, state, completions, outcome, eff_retries)
    counters = dict(sim.counters)
    nsub = sum(state["subs"].values())
    n_backups = nsub - len(state["subs"])
    failed_attempts = sum(1 for (i, s), a in state["attempts"].items()
                          for x in range(a) if x < case["scripts"][i][min(s, 1)][0])
    counters.update(
        scenarios=1,
        submissions=nsub,
        backups_launched=n_backups,
        failed_attempts=failed_attempts,
        outcome_finished=int(outcome["kind"] == "finished"),
        outcome_task_error=int(outcome["kind"] == "task_error"),
        runs_with_backup=int(n_backups > 0),
        runs_with_batching=int(case["batch_size"] is not None),
        runs_batching_and_backups=int(case["batch_size"] is not None and case["use_backups"]),
        twin_same_iteration=int(state.get("twin_same_iter", 0)),
        flavour_processes=int(case["flavour"] == "processes"),
    )
    # rare-condition probes
    both_done = 0
    orig_failed_backup_pending = 0
    for i in range(n):
        if (i, 0) in completions and (i, 1) in completions:
            both_done += 1
            if completions[(i, 0)][0] == completions[(i, 1)][0]:
                counters["twins_completed_same_instant"] = counters.get("twins_completed_same_instant", 0) + 1
            if not completions[(i, 0)][1] and completions[(i, 0)][0] <= completions[(i, 1)][0]:
                orig_failed_backup_pending += 1
    counters["twins_both_completed"] = both_done
    counters["original_failed_before_backup_done"] = orig_failed_backup_pending
    digest = events_digest(sim, extra=(state["yielded"], outcome["kind"], outcome["exc"]))
    nontrivial = failed_attempts > 0 or n_backups > 0 or (
        case["batch_size"] is not None and case["batch_size"] < n)
    return dict(
        violations=violations, violation=violations[0] if violations else None,
        digest=digest, sig=sig_of(case["scripts"], case["batch_size"], case["use_backups"], digest),
        nontrivial=nontrivial, counters=counters, vtime=sim.now, tape=list(tape.record),
        outcome=outcome,
    )


def check_oracle(case, state, completions, outcome, eff_retries):
    n = case["n"]
    vs = []
    subs = state["subs"]
    # structural bounds ----------------------------------------------------
    for i, c in subs.items():
        if c > 2:
            vs.append(dict(cls="more_than_two_submissions", msg=f"input {i} submitted {c} times"))
        if c > 1 and not case["use_backups"]:
            vs.append(dict(cls="backup_without_use_backups", msg=f"input {i} submitted {c} times"))
    for (i, s), a in state["attempts"].items():
        if a > eff_retries + 1:
            vs.append(dict(cls="too_many_attempts", msg=f"input {i} sub {s}: {a} attempts > {eff_retries + 1}"))
    # reference model ----------------------------------------------------------
    def sub_succeeds(i, s):
        k = case["scripts"][i][min(s, 1)][0]
        return k <= eff_retries

    kind = outcome["kind"]
    if kind == "hang":
        vs.append(dict(cls="hang", msg=outcome["exc"]))
        return vs
    if kind == "steplimit":
        vs.append(dict(cls="no_termination_within_step_cap", msg=outcome["exc"]))
        return vs
    if kind == "other_exception":
        vs.append(dict(cls=f"unexpected_exception:{outcome.get('exc_type')}",
                       msg=f"{outcome['exc']} at {outcome['where']}", where=outcome["where"]))
        return vs
    satisfiable = {i: any(sub_succeeds(i, s) for s in range(subs.get(i, 0))) for i in range(n)}
    never_submitted = [i for i in range(n) if subs.get(i, 0) == 0]
    if kind == "finished":
        bad = [i for i in range(n) if not satisfiable[i]]
        ys = sorted(state["yielded"])
        if never_submitted:
            vs.append(dict(cls="finished_without_submitting_input",
                           msg=f"inputs never submitted: {never_submitted[:5]}"))
        elif bad:
            vs.append(dict(cls="finished_despite_unsatisfiable_input",
                           msg=f"inputs {bad[:5]} have no successful submission but the map finished"))
        if ys != list(range(n)):
            dup = sorted({y for y in ys if ys.count(y) > 1})
            missing = sorted(set(range(n)) - set(ys))
            if dup:
                vs.append(dict(cls="duplicate_result", msg=f"inputs delivered more than once: {dup[:5]}"))
            if missing and not bad and not never_submitted:
                vs.append(dict(cls="missing_result", msg=f"inputs never delivered: {missing[:5]}"))
        # a result may only be delivered once a successful submission completed
        for y, t in zip(state["yielded"], state["yield_times"]):
            ok = [s for s in range(subs.get(y, 0))
                  if (y, s) in completions and completions[(y, s)][1] and completions[(y, s)][0] <= t]
            if not ok:
                vs.append(dict(cls="result_before_success", msg=f"input {y} delivered at t={t} with no completed successful submission"))
                break
        # bounded liveness: done within one poll period of the last needed completion
        if not vs and n > 0:
            t_need = 0.0
            for i in range(n):
                ts = [completions[(i, s)][0] for s in range(subs[i])
                      if (i, s) in completions and completions[(i, s)][1]]
                if ts:
                    t_need = max(t_need, min(ts))
            if outcome["t_end"] > t_need + 2.0 + 1e-6:
                vs.append(dict(cls="late_termination",
                               msg=f"all results available at t={t_need}, map finished at t={outcome['t_end']}"))
    elif kind == "task_error":
        i, s, a = outcome["exc"]
        if all(satisfiable.values()) and not never_submitted:
            vs.append(dict(cls="raised_although_all_satisfiable",
                           msg=f"raised scripted error of input {i} sub {s} although every input has a successful submission"))
        ys = state["yielded"]
        dup = sorted({y for y in ys if ys.count(y) > 1})
        if dup:
            vs.append(dict(cls="duplicate_result", msg=f"inputs delivered more than once: {dup[:5]}"))
    return vs


# ---------------------------------------------------------------------------
# shrinking and known findings
# ---------------------------------------------------------------------------

def shrink(case):
    if case.get("kind") == "e2e":
        from checks import c08_e2e

        yield from c08_e2e.shrink(case)
        return
    import copy

    n = case["n"]
    # fewer inputs (drop one)
    for drop in range(n - 1, -1, -1):
        c = copy.deepcopy(case)
        c["n"] = n - 1
        del c["scripts"][drop]
        if isinstance(c["batch_size"], int) and c["batch_size"] > max(1, c["n"]):
            pass
        yield c
    # simplify scripts
    for i in range(n):
        for s in (0, 1):
            k, durs = case["scripts"][i][s]
            if k != 0 or any(d != 1 for d in durs):
                c = copy.deepcopy(case)
                c["scripts"][i][s] = [0, [1]]
                yield c
            if any(d > 4 for d in durs):
                c = copy.deepcopy(case)
                c["scripts"][i][s] = [k, [min(d, 40) if d > 4 else d for d in durs]]
                if c != case:
                    yield c
    for key, val in (("retries", 0), ("flavour", "threads"), ("use_backups", False), ("batch_size", None)):
        if case[key] != val:
            c = copy.deepcopy(case)
            c[key] = val
            yield c
    if isinstance(case["batch_size"], int) and case["batch_size"] > 1:
        c = copy.deepcopy(case)
        c["batch_size"] = case["batch_size"] - 1
        yield c
    for key, val in (("coalesce", 2), ("eager", 0), ("start_jitter", 0), ("tie_sim_first", 1)):
        if case["cfg"].get(key) != val:
            c = copy.deepcopy(case)
            c["cfg"][key] = val
            yield c
    if case["max_workers"] != case["n"] + 2:
        c = copy.deepcopy(case)
        c["max_workers"] = case["n"] + 2
        yield c


def known(case, violation):
    from checks import findings

    return findings.match("C08", case, violation)
