"""C08 layer (b): end to end - a real program on the real ThreadsExecutor / ProcessesExecutor over
the simulated pool, with storage I/O faults (F5) on one chosen chunk key.

A clean single-threaded reference run lists the (operation, key) accesses tasks make; the tape picks
one data key and a side (get or set) and a number f of consecutive failures.  Oracle from the trace:
if no task exhausted its attempts (retries+1 for the threads executor, 1 for the processes executor,
which does not retry) compute() succeeds with NumPy's values; otherwise compute() raises the injected
error; it never returns normally with a missing or wrong chunk.
"""
from __future__ import annotations

import copy

from checks import c01
from checks import progrun as PR
from checks.common import sig_of
from gen import programs as G
from sim import harness as H
from sim.store import InjectedIOError, is_data_key
from sim.tape import Tape


def generate(tp: Tape, tier: str):
    case = c01.generate(tp, tier, profile=tp.choice(["general", "elemwise", "reduce", "rechunk"]), max_steps=5,
                        allow_zero=False, max_outputs=2)
    case["kind"] = "e2e"
    kind = tp.choice(["threads", "threads", "processes"])
    case["exec"] = dict(kind=kind, max_workers=tp.choice([1, 2, 4]), batch_size=tp.choice([None, None, 2]),
                        compute_arrays_in_parallel=tp.choice([None, True]))
    if kind == "threads":
        case["exec"]["retries"] = tp.choice([0, 1, 2, 2])
    case["fault"] = dict(pick=tp.randint(0, 10**6), side=tp.choice(["get", "set"]), f=tp.choice([1, 1, 2, 2, 3]))
    case["opt"] = tp.choice([dict(kind="default"), dict(kind="off")])
    return case


def _injected(exc):
    e, n = exc, 0
    while e is not None and n < 12:
        if isinstance(e, InjectedIOError):
            return True
        e = e.__cause__ or e.__context__
        n += 1
    return "injected storage fault" in str(exc)


def execute(case, sched=None):
    # ---- clean reference run: which keys do tasks touch? --------------------------------
    ref = copy.deepcopy(case)
    ref["exec"] = dict(kind="single")
    ref["sim"] = dict(mode="atomic", dur="zero")
    rr0 = PR.run_program(ref)
    if rr0.results is None:
        dg = "declined"
        return dict(violations=[], violation=None, digest=dg, sig=sig_of(case["prog"], dg), nontrivial=False,
                    counters={"e2e_declined": 1}, vtime=0.0, tape=[], outcome=dict(phase="declined"))
    side = case["fault"]["side"]
    want_op = "get" if side == "get" else "commit"
    keys = []
    for st in (rr0.store, rr0.src_store):
        for (seq, t, job, op, key, outcome, nbytes, sha) in st.trace:
            if job is not None and op == want_op and is_data_key(key) and (st.sh.name, key) not in keys:
                keys.append((st.sh.name, key))
    if not keys:
        dg = "nokeys"
        return dict(violations=[], violation=None, digest=dg, sig=sig_of(case["prog"], dg), nontrivial=False,
                    counters={"e2e_no_key": 1}, vtime=0.0, tape=[], outcome=dict(phase="nokeys"))
    sname, fkey = keys[case["fault"]["pick"] % len(keys)]
    f = case["fault"]["f"]
    state = dict(left=f, per_job={})
    fop = "get" if side == "get" else "set"

    def pre(rr):
        target = rr.store if sname == "inter" else rr.src_store

        def hook(store, op, key):
            if op == fop and key == fkey and state["left"] > 0 and store.sh.current_job is not None:
                state["left"] -= 1
                j = rr.sim.current_job
                jid = j.jid if j is not None else -1
                state["per_job"][jid] = state["per_job"].get(jid, 0) + 1
                rr.sim.count("storage_faults_fired")
                rr.sim.emit("FAULT", op, key, store.sh.current_job)
                raise InjectedIOError(f"injected storage fault on {op} {key}")

        target.sh.fault_hook = hook

    rr = PR.run_program(case, sched, pre_compute=pre)
    shadow = G.shadow_of(case["prog"])
    violations = []
    kind = case["exec"]["kind"]
    attempts_allowed = (case["exec"].get("retries", 2) + 1) if kind == "threads" else 1
    exhausted = any(n >= attempts_allowed for n in state["per_job"].values())
    fired = f - state["left"]
    if isinstance(rr.exc, (H.SimHang, H.SimStepLimit)):
        violations.append(dict(cls="e2e_hang", msg=str(rr.exc)))
    elif rr.results is not None:
        if exhausted:
            violations.append(dict(cls="e2e_finished_although_task_exhausted_attempts",
                                   msg=f"{fired} faults on {fop} {fkey}; a task failed {max(state['per_job'].values())} times (allowed attempts {attempts_allowed}) but compute() returned normally"))
        for vid, d in PR.compare_results(rr, shadow):
            violations.append(dict(cls="e2e_wrong_value_after_faults", msg=f"value {vid}: {d} ({fired} faults on {fop} {fkey})"))
    elif rr.phase == "execute":
        if not _injected(rr.exc):
            violations.append(dict(cls=f"e2e_unexpected_exception:{type(rr.exc).__name__}",
                                   msg=f"{type(rr.exc).__name__}: {str(rr.exc)[:200]} at {PR.exc_where(rr.exc)} ({fired} faults fired)",
                                   where=PR.exc_where(rr.exc), exc_type=type(rr.exc).__name__))
        elif not exhausted:
            violations.append(dict(cls="e2e_raised_although_retries_sufficed",
                                   msg=f"{fired} faults on {fop} {fkey}, no task used up its {attempts_allowed} attempts ({state['per_job']}), but compute() raised the injected error"))
    counters = c01.run_counters(rr, case)
    counters.update(e2e_runs=1, e2e_faults_fired=fired, e2e_exhausted=int(exhausted),
                    e2e_recovered=int(rr.results is not None and fired > 0),
                    e2e_surfaced=int(rr.results is None and rr.phase == "execute"))
    counters["e2e_side_" + side] = 1
    dg = PR.digest(rr, extra=(fkey, fired))
    return dict(violations=violations, violation=violations[0] if violations else None, digest=dg,
                sig=sig_of(case["prog"], case["fault"], case["exec"], dg), nontrivial=fired > 0, counters=counters,
                vtime=rr.sim.now, tape=list(rr.tape.record),
                outcome=dict(phase=rr.phase, exc=repr(rr.exc)[:200] if rr.exc else None, fired=fired, exhausted=exhausted))


def shrink(case):
    for c in c01.shrink(case):
        c["kind"] = "e2e"
        if c.get("exec", {}).get("kind") == "single":
            continue
        yield c
    if case["fault"]["f"] > 1:
        c = copy.deepcopy(case)
        c["fault"]["f"] -= 1
        yield c
