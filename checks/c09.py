"""C09 - resume after a crash gives the same result and never trusts an incomplete array.

A clean reference run records the number of commits (every durable write: array
metadata and data chunks).  Each crash point k - "the deployment dies when k
writes have become durable" - is then visited (all of them when there are <= 64,
else a seeded sample): the run proceeds until the k-th commit, the store goes
down (every later access raises, buffered writes are lost), the error surfaces,
whatever the pool still runs is drained, the durable state is snapshotted, the
store is restarted and ``compute(resume=True)`` is called.
"""
from __future__ import annotations

import copy
import hashlib

import numpy as np

from checks import c01
from checks import progrun as PR
from checks.common import sig_of
from gen import programs as G
from sim import harness as H
from sim.monitor import storage_grid
from sim.store import SimCrash, is_data_key
from sim.tape import Tape

ID = "C09"
LEVEL = "fault_enumeration"
RULE = (
    "each evaluation = one seeded program (fused and unfused plans, multi-output ops, multi-chunk rechunk tasks, "
    "several requested arrays) x ALL crash points of its clean run when it has <= 64 commits, else a seeded sample "
    "of 24 (crash point k = the store goes down when k writes are durable; with parallel executors and two-phase / "
    "spread commit the durable subset depends on the seeded schedule) x executor of the crashed run x executor (and "
    "sometimes optimizer setting) of the resumed run x same lazy arrays vs. program rebuilt from reset name counters. "
    "Non-trivial = a crash point after which the resumed run skipped >= 1 operation or re-ran >= 1 operation with a "
    "partially written output; distinct = distinct (program, crash point, digest) - counted per crash point."
)
ASSUMPTIONS = c01.ASSUMPTIONS + [
    "crash model: committed single-key writes are atomic and durable; buffered writes of running tasks are lost; "
    "client and workers die together (the error surfaces from compute); torn/short writes are outside cubed's "
    "stated storage contract and are not injected",
]
COMPONENTS = c01.COMPONENTS
MAX_ALL = 64
SAMPLE = 24


def budget(tier):
    if tier == "quick":
        return dict(runs=320, minutes=None, chunk=5, chunk_wall=1200, shrink_budget=60, shrink_wall=240.0)
    return dict(runs=None, minutes=20.0, chunk=6, chunk_wall=1800, shrink_budget=80, shrink_wall=300.0)


def generate(tp: Tape, tier: str):
    profile = tp.weighted([("general", 4), ("rechunk", 4), ("multi", 4), ("reduce", 2), ("elemwise", 2)])
    case = c01.generate(tp, tier, profile=profile, max_steps=6 if tier == "quick" else 10, max_outputs=3,
                        min_steps=2, exclude_ops=("create",) if tp.coin(1, 2) else ())
    case["opt"] = tp.choice([dict(kind="off"), dict(kind="default"), dict(kind="default"), dict(kind="multi", max_total_num_input_blocks=None)])
    case["opt_resume"] = case["opt"] if tp.coin(3, 4) else tp.choice([dict(kind="off"), dict(kind="default")])
    case["exec_resume"] = H.exec_cfg_from_tape(tp)
    case["rebuild"] = tp.coin(1, 3)
    case["second_crash"] = tp.randint(1, 6) if tp.coin(1, 3) else 0
    case["crash_points"] = None
    case["allowed_mem"] = tp.choice([200_000_000, 2_000_000, 100_000])
    return case


def _tape_for(case, k, sched):
    if sched is not None:
        return Tape(replay=sched)
    h = hashlib.sha256(f"{case['sched_seed']}:{k}".encode()).digest()
    return Tape(int.from_bytes(h[:8], "big"))


def clean_run(case):
    c = copy.deepcopy(case)
    rr = PR.run_program(c)
    n = rr.store.sh.n_commits if rr.store is not None else 0
    return rr, n


def execute(case, sched=None):
    violations = []
    counters = {"programs": 1}
    rr0, n_commits = clean_run(case)
    sigs = []
    if rr0.results is None or n_commits == 0:
        counters["clean_run_declined"] = 1
        dg = PR.digest(rr0) if rr0.sim else "none"
        return dict(violations=[], violation=None, digest=dg, sig=sig_of(case["prog"], dg), nontrivial=False,
                    counters=counters, vtime=0.0, tape=None, outcome=dict(phase=rr0.phase, exc=repr(rr0.exc)[:200]))
    points = case.get("crash_points")
    if points is None:
        if n_commits <= MAX_ALL:
            points = list(range(n_commits))
            counters["programs_all_points"] = 1
        else:
            tp = Tape(case["sched_seed"] ^ 0x5EED)
            points = sorted(tp.sample(range(n_commits), SAMPLE))
            counters["programs_sampled_points"] = 1
    shadow = G.shadow_of(case["prog"])
    digests = []
    vtime = 0.0
    nontrivial = 0
    for k in points:
        vs, info = crash_and_resume(case, k, shadow, _tape_for(case, k, sched if len(points) == 1 else None))
        digests.append(info["digest"])
        vtime += info["vtime"]
        for name, val in info["counters"].items():
            counters[name] = counters.get(name, 0) + val
        if info["nontrivial"]:
            nontrivial += 1
            sigs.append(sig_of(case["prog"], k, info["digest"]))
        for v in vs:
            v["k"] = k
            violations.append(v)
        if violations:
            break
    counters["crash_points_visited"] = len(digests)
    counters["clean_run_commits"] = n_commits
    dg = hashlib.sha256("".join(digests).encode()).hexdigest()
    res = dict(violations=violations, violation=violations[0] if violations else None, digest=dg,
               sig=sig_of(case["prog"], dg), nontrivial=nontrivial > 0, counters=counters, vtime=vtime, tape=None,
               outcome=dict(points=len(points), commits=n_commits))
    res["extra_sigs"] = sigs
    return res


def crash_and_resume(case, k, shadow, tape):
    """One crash point. Returns (violations, info)."""
    import cubed

    vs = []
    cnt = {}
    c = copy.deepcopy(case)
    with PR.Session(c, None) as rr:
        # replace the session's tape by the per-crash-point tape
        rr.sim.tape = tape
        rr.tape = tape
        sim, store = rr.sim, rr.store
        if not PR.build_program(rr):
            return vs, dict(digest="declined", vtime=0.0, counters=cnt, nontrivial=False)
        state = dict(n=0)

        def commit_hook(st, key, value, job):
            if st.sh.n_commits >= k and not st.sh.down:
                st.sh.down = True
                sim.emit("CRASH", k, key, job)

        store.sh.commit_hook = commit_hook
        res1, phase1, exc1 = PR.compute(rr)
        store.sh.commit_hook = None
        crashed = store.sh.down
        if not crashed:
            # the crash point was not reached under this schedule (fewer commits): nothing to resume
            cnt["crash_not_reached"] = 1
            return vs, dict(digest=PR.digest(rr), vtime=sim.now, counters=cnt, nontrivial=False)
        if res1 is not None:
            # crash landed after everything the client needed was durable... except the read-back failed?
            cnt["crash_after_results"] = 1
        elif not isinstance(exc1, SimCrash):
            # some other exception surfaced although the only fault is the crash
            if not _caused_by_crash(exc1):
                vs.append(dict(cls="crash_surfaced_as_other_error", msg=f"{type(exc1).__name__}: {str(exc1)[:200]}"))
        cnt["crashes_injected"] = 1
        job_at_crash = [e for e in sim.events if e[2] == "CRASH"]
        snap = store.snapshot()
        store.sh.down = False
        n_trace0 = len(store.trace)
        ev0 = len(sim.events)
        # ---- resume ------------------------------------------------------------
        arrays = rr.arrays
        if case.get("rebuild"):
            H.set_counters(0)
            import random as _r

            _r.seed(case.get("py_seed", 0))
            rr2 = PR.RunResult()
            rr2.case, rr2.spec, rr2.sim, rr2.store, rr2.src_store = rr.case, rr.spec, sim, store, rr.src_store
            prog = case["prog"]
            rr.src_store.sh.tracing = False
            try:
                built = G.build(prog, rr.spec, rr.src_store, reuse_sources=True)
            finally:
                rr.src_store.sh.tracing = True
            arrays = [built.values[o] for o in rr.requested]
            if any(a is None for a in arrays):
                arrays = rr.arrays
            else:
                cnt["resumed_from_rebuilt_program"] = 1
        k2 = case.get("second_crash")
        if k2:
            # the resumed run dies as well, after k2 further durable writes; then resume once more
            n0 = store.sh.n_commits

            def commit_hook2(st, key, value, job):
                if st.sh.n_commits - n0 >= k2 and not st.sh.down:
                    st.sh.down = True
                    sim.emit("CRASH2", k2, key, job)

            store.sh.commit_hook = commit_hook2
            PR.compute(rr, opt=case.get("opt_resume"), exec_cfg=case.get("exec_resume"), arrays=arrays,
                       compute_kwargs=dict(resume=True))
            store.sh.commit_hook = None
            if store.sh.down:
                cnt["second_crashes_injected"] = 1
                store.sh.down = False
            snap = store.snapshot()
            n_trace0 = len(store.trace)
            ev0 = len(sim.events)
        probe = _ProbeCallback(sim, store, snap)
        res2, phase2, exc2 = PR.compute(rr, opt=case.get("opt_resume"), exec_cfg=case.get("exec_resume"),
                                        arrays=arrays, compute_kwargs=dict(resume=True), callbacks_extra=[probe])
        dag2 = getattr(rr.cb, "dag", None)
        if res2 is None:
            if phase2 == "plan" and isinstance(exc2, NotImplementedError):
                cnt["resume_refused_up_front"] = 1
            else:
                vs.append(dict(cls="resume_failed", msg=f"resume after crash point {k} failed in phase {phase2}: {type(exc2).__name__}: {str(exc2)[:200]} at {PR.exc_where(exc2)}",
                               exc_type=type(exc2).__name__, where=PR.exc_where(exc2)))
        else:
            rr.results = res2
            for vid, got in zip(rr.requested, res2):
                if shadow.random[vid]:
                    continue
                d = G.compare(np.asarray(got), shadow.values[vid], exact=shadow.exact[vid], lowprec=shadow.lowprec[vid])
                if d is not None:
                    vs.append(dict(cls="wrong_value_after_resume", msg=f"crash point {k}: value {vid}: {d}"))
                    break
        # ---- computed marks versus the snapshot ----------------------------------
        skipped_ops = 0
        partial_ops = 0
        if dag2 is not None and res2 is not None:
            started = {}
            for e in sim.events[ev0:]:
                if e[2] == "start":
                    started[e[4][0]] = started.get(e[4][0], 0) + 1
            for name, d in dag2.nodes(data=True):
                if d.get("type") != "op" or d.get("pipeline") is None:
                    continue
                model, why, partial = model_computed(name, dag2, snap, store)
                if partial:
                    partial_ops += 1
                mark = bool(d.get("computed", False))
                if mark != model:
                    vs.append(dict(cls="computed_mark_mismatch",
                                   msg=f"crash point {k}: op {name} ({d.get('op_name')}) marked computed={mark} but the snapshot says {model} ({why})"))
                if model and started.get(name, 0) > 0:
                    vs.append(dict(cls="complete_array_recomputed",
                                   msg=f"crash point {k}: op {name} had complete outputs but ran {started[name]} tasks on resume"))
                if model:
                    skipped_ops += 1
        # ---- nothing wiped ---------------------------------------------------------
        for (seq, t, job, op, key, outcome, nbytes, sha) in store.trace[n_trace0:]:
            if op in ("delete", "commit_delete", "clear"):
                vs.append(dict(cls="delete_during_resume", msg=f"crash point {k}: {op} {key} by {job}"))
                break
        if probe.missing:
            vs.append(dict(cls="existing_chunk_wiped_by_array_creation",
                           msg=f"crash point {k}: keys present before resume but missing after create-arrays: {probe.missing[:4]}"))
        cnt["resume_skipped_ops"] = skipped_ops
        cnt["resume_with_skipped_op"] = int(skipped_ops > 0)
        cnt["resume_with_partial_output"] = int(partial_ops > 0)
        if job_at_crash and job_at_crash[0][5] is not None:
            cnt["crash_inside_task_commit"] = 1
        dg = PR.digest(rr, extra=(k, sorted(snap)[:50], str(phase2)))
        return vs, dict(digest=dg, vtime=sim.now, counters=cnt, nontrivial=(skipped_ops > 0 or partial_ops > 0))


def _caused_by_crash(exc):
    seen = 0
    e = exc
    while e is not None and seen < 10:
        if isinstance(e, SimCrash):
            return True
        e = e.__cause__ or e.__context__
        seen += 1
    return "is down" in str(exc)


class _ProbeCallback:
    """After the create-arrays operation ended every key of the snapshot must still exist."""

    def __init__(self, sim, store, snap):
        self.sim, self.store, self.snap = sim, store, snap
        self.missing = []
        self.checked = False

    def on_compute_start(self, event):
        pass

    def on_compute_end(self, event):
        pass

    def on_operation_start(self, event):
        pass

    def on_task_end(self, event):
        pass

    def on_operation_end(self, event):
        if event.name == "create-arrays":
            self.checked = True
            have = set(self.store._store_dict)
            self.missing = sorted(k for k in self.snap if k not in have)


def model_computed(name, dag, snap, store):
    """(expected computed mark, reason, partially-written?) from the durable snapshot."""
    import math

    from cubed.storage.zarr import LazyZarrArray

    outs = [dag.nodes[o] for o in dag.successors(name)]
    if all(o.get("target", None) is None for o in outs):
        return False, "no targets (create-arrays)", False
    partial = False
    complete = True
    why = "all chunk keys present"
    for o in outs:
        t = o.get("target")
        if t is None:
            continue
        ndim = len(t.shape)
        if ndim == 0:
            complete = False
            why = "zero-dimensional output"
            continue
        if getattr(np.dtype(t.dtype), "fields", None) is not None:
            # structured arrays cannot report completeness: resume either refused up front
            # (NotImplementedError) or, if the group is not fully created yet, recomputes them
            complete = False
            why = "structured dtype"
            continue
        if isinstance(t, LazyZarrArray):
            if t.store is not store:
                return False, "target outside the simulated store", False
            prefix = t.path or ""
        else:
            sp = getattr(t, "store_path", None)
            if sp is None or sp.store is not store:
                return False, "target outside the simulated store", False
            prefix = sp.path
        meta = (prefix + "/zarr.json") if prefix else "zarr.json"
        if meta not in snap:
            complete = False
            why = f"{prefix}: metadata absent"
            continue
        # stored grid from the metadata document in the snapshot
        import json

        md = json.loads(snap[meta])
        want = _nchunks_from_metadata(md)
        have = sum(1 for key in snap if key.startswith(prefix + "/c/") or (not prefix and key.startswith("c/")))
        if have != want:
            complete = False
            why = f"{prefix}: {have} of {want} chunk keys present"
            if have > 0:
                partial = True
    return complete, why, partial


def _nchunks_from_metadata(md):
    import math

    shape = md["shape"]
    cg = md["chunk_grid"]
    cfg = cg["configuration"]
    if cg["name"] == "regular":
        cs = cfg["chunk_shape"]
        return math.prod(-(-s // c) if c else 0 for s, c in zip(shape, cs)) if shape else 1
    # rectilinear: explicit per-dimension chunk lists (possibly run-length encoded)
    total = 1
    for dim in cfg["chunk_shapes"]:
        if isinstance(dim, int):
            raise ValueError("unexpected rectilinear encoding")
        n = 0
        for e in dim:
            if isinstance(e, list):
                n += e[1]
            else:
                n += 1
        total *= n
    return total


def shrink(case):
    # candidates enumerate all crash points again (the commit count changes with the program)
    for c in c01.shrink(case):
        c["crash_points"] = None
        yield c
    for key in ("rebuild", "second_crash"):
        if case.get(key):
            c = copy.deepcopy(case)
            c[key] = 0 if key == "second_crash" else False
            yield c
    if case.get("exec_resume") != dict(kind="single"):
        c = copy.deepcopy(case)
        c["exec_resume"] = dict(kind="single")
        yield c
    if case.get("opt_resume") != case.get("opt"):
        c = copy.deepcopy(case)
        c["opt_resume"] = c["opt"]
        yield c


def pin(case, violation):
    c = copy.deepcopy(case)
    if violation and "k" in violation:
        c["crash_points"] = [violation["k"]]
    return c


def known(case, violation):
    from checks import findings

    return findings.match(ID, case, violation)
