"""C10 - a lazy array's value is fixed when built; inputs and earlier outputs stay intact.

History machine.  A *history* is a generated program (the derivations over one
pool of related lazy arrays) interleaved with API-level actions: compute any
subset (optimized or not, any executor variant, resume or not), store /
to_zarr (eager or lazy, then computed) of any array including ancestors of
arrays derived earlier, re-compute, change of the global configuration, crash
during a compute followed by compute(resume=True).  The model is the NumPy
shadow of every array (fixed when the array is derived) plus the expected
contents of every target.  After every action: the arrays it computed equal
their shadow; in-memory inputs and read-only Zarr sources are unchanged (no
write ever reaches the source store); every target written by an earlier action
still holds the values stored then.  At the end every array is computed once
more.
"""
from __future__ import annotations

import copy
import hashlib

import numpy as np

from checks import c01
from checks import progrun as PR
from checks.common import sig_of
from gen import programs as G
from sim import harness as H
from sim import store as simstore
from sim.store import SimCrash
from sim.tape import Tape

ID = "C10"
LEVEL = "exploration"
RULE = (
    "each run = one seeded history: a generated program of up to 8 (quick) / 14 (thorough) derivation steps "
    "interleaved with up to 10 / 30 actions drawn from {compute subset, recompute, to_zarr eager/lazy, store "
    "eager/lazy of 1-2 arrays, config change, crash-then-resume}, under seeded executors, optimizer settings and "
    "schedules; a final sweep computes every array. Non-trivial = >= 2 computes and >= 1 store/to_zarr action "
    "succeeded; distinct = distinct (history, digest)."
)
ASSUMPTIONS = c01.ASSUMPTIONS + [
    "the value an array 'should' have is the NumPy evaluation of its derivation at the time it was derived",
]
COMPONENTS = c01.COMPONENTS


def budget(tier):
    if tier == "quick":
        return dict(runs=1200, minutes=None, chunk=15, chunk_wall=1200, shrink_budget=120, shrink_wall=240.0)
    return dict(runs=None, minutes=20.0, chunk=15, chunk_wall=1800, shrink_budget=150, shrink_wall=300.0)


def generate(tp: Tape, tier: str):
    thorough = tier == "thorough"
    prog = G.generate_program(tp, max_steps=10 if thorough else 8, min_steps=3, max_extent=10,
                              profile=tp.choice(["general", "elemwise", "reduce", "multi"]), allow_zero=False,
                              dtypes=["int64", "float64", "int32", "float32"], exclude_tags=("qr",),
                              exclude_ops=("take", "groupby"), max_outputs=1)
    n_in = len(prog["inputs"])
    nouts = [G.OPS[s["op"]].nout for s in prog["steps"]]
    # value ids available after step si
    avail_after = []
    acc = n_in
    for n in nouts:
        acc += n
        avail_after.append(acc)
    n_steps = len(prog["steps"])
    n_actions = tp.randint(3, 16 if thorough else 10)
    raw = tp.coin(1, 8)  # keep the raw "store an ancestor of an earlier-derived array" construct in a small fraction
    actions = []
    for _ in range(n_actions):
        after = tp.randint(-1, n_steps - 1)
        navail = n_in if after < 0 else avail_after[after]
        kind = tp.weighted([("compute", 8), ("recompute", 2), ("to_zarr", 4), ("store", 3), ("config", 1),
                            ("crash_resume", 2)])
        a = dict(kind=kind, after=after)
        pick = lambda: navail - 1 - tp.below(min(4, navail)) if tp.coin(2, 3) else tp.below(navail)  # noqa: E731
        if kind in ("compute", "crash_resume"):
            a["ids"] = sorted({pick() for _ in range(tp.randint(1, 3))})
            a["opt"] = PR.gen_opt(tp)
            a["exec"] = H.exec_cfg_from_tape(tp)
            a["resume"] = tp.coin(1, 4)
            if kind == "crash_resume":
                a["k"] = tp.randint(1, 12)
        elif kind == "recompute":
            a["ids"] = [pick()]
            a["opt"] = PR.gen_opt(tp)
            a["exec"] = H.exec_cfg_from_tape(tp)
        elif kind == "to_zarr":
            a["id"] = pick()
            a["lazy"] = tp.coin(1, 3)
            a["target"] = tp.choice(["path", "root", "existing"])
            a["exec"] = H.exec_cfg_from_tape(tp)
        elif kind == "store":
            a["ids"] = sorted({pick() for _ in range(tp.randint(1, 2))})
            a["lazy"] = tp.coin(1, 3)
            a["exec"] = H.exec_cfg_from_tape(tp)
        actions.append(a)
    actions.sort(key=lambda a: a["after"])
    case = dict(kind="history", prog=prog, actions=actions, raw=raw, sim=H.sim_cfg_from_tape(tp),
                allowed_mem=200_000_000, compressor=None, py_seed=tp.randint(0, 10**6),
                sched_seed=tp.randint(0, 2**62), exec=dict(kind="single"))
    if not raw:
        for a in case["actions"]:
            if a["kind"] == "store":
                a["ids"] = a["ids"][:1]
        avoid_known(case)
    return case


def users_of(prog, vid, upto_step):
    """Steps <= upto_step (index) that use value vid, transitively."""
    n_in = len(prog["inputs"])
    vids = {vid}
    cur = n_in
    used = False
    for si, st in enumerate(prog["steps"]):
        nout = G.OPS[st["op"]].nout
        if si <= upto_step and any(a in vids for a in st["args"]):
            used = True
            vids.update(range(cur, cur + nout))
        cur += nout
    return used


def avoid_known(case):
    """Avoidance transform for the known finding 'array derived from x before x is stored':
    move every store/to_zarr of a value that already has derived users to before its first use."""
    prog = case["prog"]
    n_in = len(prog["inputs"])
    first_use = {}
    for si, st in enumerate(prog["steps"]):
        for a in st["args"]:
            first_use.setdefault(a, si)
    for a in case["actions"]:
        ids = [a["id"]] if a["kind"] == "to_zarr" else (a["ids"] if a["kind"] == "store" else [])
        for vid in ids:
            fu = first_use.get(vid)
            if fu is not None and a["after"] >= fu:
                # the earliest point at which vid exists
                cur = n_in
                born = -1
                for si, st in enumerate(prog["steps"]):
                    nout = G.OPS[st["op"]].nout
                    if cur <= vid < cur + nout:
                        born = si
                    cur += nout
                a["after"] = min(a["after"], max(born, fu - 1)) if born <= fu - 1 else born
                if a["after"] >= fu:
                    a["skip"] = True
    case["actions"].sort(key=lambda a: a["after"])


def execute(case, sched=None):
    import cubed
    import zarr

    violations = []
    counters = {"computes": 0, "stores": 0, "actions_run": 0, "crashes": 0, "actions_declined": 0}
    prog = case["prog"]
    shadow = G.shadow_of(prog)
    by_after = {}
    for a in case["actions"]:
        if not a.get("skip"):
            by_after.setdefault(a["after"], []).append(a)
    targets = []  # (store, path, value id)
    stored_events = []  # (position, value id, was_lazy, name)
    derived_at = {}  # value id -> position counter when derived
    pos = [0]
    with PR.Session(case, sched) as rr:
        sim, store, src = rr.sim, rr.store, rr.src_store
        in_mem = []
        values = []
        st = H.ExecState()

        def src_clean():
            for (seq, t, job, op, key, outcome, nbytes, sha) in src.trace:
                if op in ("set", "commit", "delete", "commit_delete", "clear", "set_if_not_exists"):
                    return f"{op} {key} by {job}"
            return None

        def check_targets(label):
            for (tstore, tpath, vid) in targets:
                try:
                    tstore.sh.tracing = False
                    got = zarr.open_array(store=tstore, path=tpath, mode="r")[...]
                except Exception as e:  # noqa: BLE001
                    violations.append(dict(cls="earlier_target_unreadable", msg=f"after {label}: target of value {vid}: {type(e).__name__}: {str(e)[:100]}",
                                           ancestor_stored_after_derivation=hazard["on"]))
                    continue
                finally:
                    tstore.sh.tracing = True
                d = G.compare(np.asarray(got), shadow.values[vid], exact=shadow.exact[vid], lowprec=shadow.lowprec[vid])
                if d is not None:
                    violations.append(dict(cls="earlier_target_changed", msg=f"after {label}: target holding value {vid}: {d}",
                                           ancestor_stored_after_derivation=hazard["on"]))

        hazard = dict(on=False)

        def note_hazard(stored):
            """Runtime fact for the known finding: a not-yet-computed array is stored although other arrays of
            the pool were already derived from it, or several arrays sharing ancestry are stored in one call."""
            names = [x.name for x in stored]
            for i, x in enumerate(stored):
                if type(x._zarray).__name__ != "LazyZarrArray":
                    continue
                for v in values:
                    if v is None or v is x:
                        continue
                    try:
                        if x.name in v._plan.dag and v.name != x.name:
                            hazard["on"] = True
                    except Exception:  # noqa: BLE001
                        pass
                for j, y in enumerate(stored):
                    if i != j and (x is y or x.name == y.name or x.name in y._plan.dag):
                        hazard["on"] = True

        def flag_for(vid, arr):
            """Was an ancestor of this array stored after the array had been derived?"""
            if hazard["on"]:
                return True
            for (p, svid, was_lazy, sname) in stored_events:
                if p > derived_at.get(vid, -1) and svid != vid and was_lazy:
                    try:
                        if sname in arr._plan.dag:
                            return True
                    except Exception:  # noqa: BLE001
                        pass
            return False

        def do_compute(ids, a, label, values, resume=None):
            arrs = [(i, values[i]) for i in ids if values[i] is not None and not shadow.random[i]]
            if not arrs:
                return
            res, phase, exc = PR.compute(rr, opt=a.get("opt"), exec_cfg=a.get("exec"), arrays=[x for _, x in arrs],
                                         compute_kwargs=dict(resume=True) if (resume if resume is not None else a.get("resume")) else None)
            if res is None:
                if isinstance(exc, (H.SimHang, H.SimStepLimit)):
                    violations.append(dict(cls="hang", msg=f"{label}: {exc}"))
                else:
                    counters["actions_declined"] += 1
                return
            counters["computes"] += 1
            for (vid, arr), got in zip(arrs, res):
                d = G.compare(np.asarray(got), shadow.values[vid], exact=shadow.exact[vid], lowprec=shadow.lowprec[vid])
                if d is not None:
                    violations.append(dict(cls="value_changed_by_history",
                                           msg=f"{label}: value {vid} (step {shadow.producer[vid]}): {d}",
                                           ancestor_stored_after_derivation=flag_for(vid, arr)))

        def run_actions(after, values):
            for a in by_after.get(after, []):
                pos[0] += 1
                counters["actions_run"] += 1
                k = a["kind"]
                label = f"action#{pos[0]} {k} after step {after}"
                try:
                    if k in ("compute", "recompute"):
                        do_compute(a["ids"], a, label, values)
                    elif k == "config":
                        cubed.config.set({"spec.allowed_mem": "1GB"})
                    elif k == "crash_resume":
                        kk = a["k"]
                        n0 = store.sh.n_commits

                        def hook(s_, key, value, job):
                            if s_.sh.n_commits - n0 >= kk and not s_.sh.down:
                                s_.sh.down = True

                        store.sh.commit_hook = hook
                        arrs = [values[i] for i in a["ids"] if values[i] is not None]
                        if arrs:
                            PR.compute(rr, opt=a.get("opt"), exec_cfg=a.get("exec"), arrays=arrs)
                        store.sh.commit_hook = None
                        if store.sh.down:
                            counters["crashes"] += 1
                        store.sh.down = False
                        do_compute(a["ids"], a, label + " (resume)", values, resume=True)
                    elif k == "to_zarr":
                        vid = a["id"]
                        x = values[vid]
                        if x is None or x.ndim == 0 or x.size == 0 or shadow.random[vid] or x.dtype.fields is not None:
                            continue
                        t = simstore.SimStore(name=f"tgt-{pos[0]}")
                        sim.attach_store(t)
                        path = "g/a" if a["target"] == "path" else None
                        tgt = t
                        if a["target"] == "existing":
                            t.sh.tracing = False
                            tgt = zarr.create_array(store=t, shape=x.shape, dtype=x.dtype, chunks=x.chunksize, fill_value=0)
                            t.sh.tracing = True
                        was_lazy = type(x._zarray).__name__ == "LazyZarrArray"
                        note_hazard([x])
                        ex = H.make_executor(sim, a["exec"], H.ExecState())
                        if a["lazy"]:
                            out = cubed.to_zarr(x, tgt, path=path, compute=False)
                            cubed.compute(out, executor=ex, _return_in_memory_array=False)
                        else:
                            cubed.to_zarr(x, tgt, path=path, executor=ex)
                        counters["stores"] += 1
                        stored_events.append((pos[0], vid, was_lazy, x.name))
                        targets.append((t, path, vid))
                    elif k == "store":
                        ids = [i for i in a["ids"] if values[i] is not None and values[i].ndim > 0 and values[i].size > 0
                               and not shadow.random[i] and values[i].dtype.fields is None]
                        if not ids:
                            continue
                        ts = []
                        for i in ids:
                            t = simstore.SimStore(name=f"tgt-{pos[0]}-{i}")
                            sim.attach_store(t)
                            ts.append(t)
                        lazies = [type(values[i]._zarray).__name__ == "LazyZarrArray" for i in ids]
                        names = [values[i].name for i in ids]
                        note_hazard([values[i] for i in ids])
                        ex = H.make_executor(sim, a["exec"], H.ExecState())
                        if a["lazy"]:
                            outs = cubed.store([values[i] for i in ids], ts, compute=False)
                            cubed.compute(*outs, executor=ex, _return_in_memory_array=False)
                        else:
                            cubed.store([values[i] for i in ids], ts, executor=ex)
                        counters["stores"] += 1
                        for i, t, wl, nm in zip(ids, ts, lazies, names):
                            stored_events.append((pos[0], i, wl, nm))
                            targets.append((t, None, i))
                except (H.SimHang, H.SimStepLimit) as e:
                    violations.append(dict(cls="hang", msg=f"{label}: {e}"))
                except Exception as e:  # noqa: BLE001 - an action cubed declines is not a C10 matter
                    counters["actions_declined"] += 1
                    from sim.loop import quiesce_zarr_loop

                    quiesce_zarr_loop()
                    store.sh.commit_hook = None
                    store.sh.down = False
                # invariants after every action
                w = src_clean()
                if w:
                    violations.append(dict(cls="source_data_modified", msg=f"after {label}: write to a read-only source: {w}"))
                check_targets(label)
                if violations:
                    return

        # build step by step, running the actions scheduled after each step
        src.sh.tracing = False
        values.extend(G.build_inputs(prog, rr.spec, src))
        src.sh.tracing = True
        for i in range(len(values)):
            derived_at[i] = 0
        in_mem = [G.make_data(inp["shape"], inp["dtype"], inp["data_seed"], inp.get("nan", False)) for inp in prog["inputs"]]
        run_actions(-1, values)
        cur = len(values)
        for si, stp in enumerate(prog["steps"]):
            if violations:
                break
            op = G.OPS[stp["op"]]
            try:
                if op.arity == 0:
                    r = G._cu_creation(stp.get("p", {}), rr.spec)
                else:
                    args = [values[i] for i in stp["args"]]
                    r = None if any(x is None for x in args) else op.cu_fn(*args, stp.get("p", {}))
                rs = ([None] * op.nout) if r is None else (list(r) if op.nout > 1 else [r])
            except Exception:  # noqa: BLE001
                rs = [None] * op.nout
            pos[0] += 1
            for k_, x in enumerate(rs):
                derived_at[cur + k_] = pos[0]
            values.extend(rs)
            cur += op.nout
            run_actions(si, values)
        # final sweep: every array once more, one at a time
        if not violations:
            for vid, x in enumerate(values):
                if x is None or shadow.random[vid]:
                    continue
                do_compute([vid], dict(opt=dict(kind="default"), exec=dict(kind="single")), f"final sweep value {vid}", values)
                if violations:
                    break
            w = src_clean()
            if w:
                violations.append(dict(cls="source_data_modified", msg=f"final: write to a read-only source: {w}"))
            check_targets("final sweep")
    c = dict(counters)
    for o in PR.ops_used(prog):
        c["op_" + o] = 1
    for a in case["actions"]:
        c["action_" + a["kind"]] = c.get("action_" + a["kind"], 0) + 1
    c["raw_histories"] = int(bool(case.get("raw")))
    dg = PR.digest(rr, extra=(counters["computes"], counters["stores"]))
    return dict(violations=violations, violation=violations[0] if violations else None, digest=dg,
                sig=sig_of(prog, case["actions"], dg), nontrivial=counters["computes"] >= 2 and counters["stores"] >= 1,
                counters=c, vtime=rr.sim.now, tape=list(rr.tape.record),
                outcome=dict(computes=counters["computes"], stores=counters["stores"], declined=counters["actions_declined"]))


def shrink(case):
    # fewer actions first
    for i in range(len(case["actions"]) - 1, -1, -1):
        c = copy.deepcopy(case)
        del c["actions"][i]
        yield c
    # drop trailing derivation steps that no action and no later step needs
    prog = case["prog"]
    if prog["steps"]:
        last = len(prog["steps"]) - 1
        n_in = len(prog["inputs"])
        total = n_in + sum(G.OPS[s["op"]].nout for s in prog["steps"])
        nout = G.OPS[prog["steps"][-1]["op"]].nout
        dead = set(range(total - nout, total))
        refs = set()
        for a in case["actions"]:
            refs.update(a.get("ids", []))
            if "id" in a:
                refs.add(a["id"])
        if not (dead & refs) and all(a["after"] < last for a in case["actions"]):
            c = copy.deepcopy(case)
            c["prog"]["steps"].pop()
            c["prog"]["outputs"] = [total - nout - 1] if total - nout - 1 >= 0 else [0]
            yield c
    for i, a in enumerate(case["actions"]):
        for key, val in (("exec", dict(kind="single")), ("opt", dict(kind="off")), ("lazy", False), ("resume", False)):
            if key in a and a[key] != val:
                c = copy.deepcopy(case)
                c["actions"][i][key] = val
                yield c
        if a["kind"] == "crash_resume":
            c = copy.deepcopy(case)
            c["actions"][i]["kind"] = "compute"
            yield c
    if case.get("sim") != dict(mode="atomic", dur="zero"):
        c = copy.deepcopy(case)
        c["sim"] = dict(mode="atomic", dur="zero")
        yield c


def known(case, violation):
    from checks import findings

    return findings.match(ID, case, violation)
