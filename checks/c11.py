"""C11 - store/to_zarr fill every target completely, and only inside the requested region."""
from __future__ import annotations

import copy

import numpy as np

from checks import c01
from checks import progrun as PR
from checks.common import sig_of
from gen import programs as G
from gen import stores as S
from sim import harness as H
from sim.tape import Tape

ID = "C11"
LEVEL = "exploration"
RULE = (
    "each run = one seeded store scenario: sources are values of a generated program (in-memory, computed, rechunked, "
    "fused) x 1-3 (source, target) pairs incl. repeated sources x targets {new store, store+group path, existing Zarr "
    "array with same / different / multiple chunking, sharded} x regions {none, full, chunk-aligned offsets, "
    "misaligned, wrong shape} x API {to_zarr eager/lazy, store eager/lazy} x executor variants incl. two-phase / "
    "spread commit on several workers x pre-history on the same lazy source objects {none, computed before, stored to another target before, both}. Existing targets are pre-filled with a sentinel and read back with plain "
    "Zarr. Non-trivial = the call was accepted and executed, or rejected with all targets checked unchanged; "
    "distinct = distinct (scenario, configuration, digest)."
)
ASSUMPTIONS = c01.ASSUMPTIONS + [
    "a region is 'safe' iff it has the source's shape and starts/ends on target storage-chunk (shard) boundaries or "
    "at the array end",
]
COMPONENTS = c01.COMPONENTS


def budget(tier):
    if tier == "quick":
        return dict(runs=2000, minutes=None, chunk=30, chunk_wall=900)
    return dict(runs=None, minutes=20.0, chunk=40, chunk_wall=1200)


def generate(tp: Tape, tier: str):
    sc = S.generate_scenario(tp, tier)
    case = dict(kind="store", prog=sc["prog"], pairs=sc["pairs"], api=sc["api"],
                exec=H.exec_cfg_from_tape(tp), sim=H.sim_cfg_from_tape(tp),
                opt=tp.choice([dict(kind="default"), dict(kind="default"), dict(kind="off")]),
                allowed_mem=tp.choice([200_000_000, 2_000_000]), compressor=None,
                py_seed=tp.randint(0, 10**6), sched_seed=tp.randint(0, 2**62))
    # histories: what happened to the *same lazy source objects* before the store call under test
    case["pre"] = tp.weighted([([], 6), (["compute"], 2), (["store_other"], 1), (["compute", "store_other"], 1),
                               (["store_other", "compute"], 1)])
    return case


def run_scenario(case, sched=None, monitor_records=None):
    """Executes the scenario; returns (rr, infos, outcome dict)."""
    import cubed

    out = dict(phase=None, exc=None, accepted=False)
    infos = []
    with PR.Session(case, sched) as rr:
        prog = case["prog"]
        if not PR.build_program(rr, select_outputs=lambda p, b: sorted({pr["src"] for pr in case["pairs"]})):
            out["phase"] = "build_program"
            return rr, infos, out
        if any(rr.built.values[pr["src"]] is None for pr in case["pairs"]):
            out["phase"] = "build_program"
            return rr, infos, out
        shadow = G.shadow_of(prog)
        sources = []
        for k, pr in enumerate(case["pairs"]):
            a = rr.built.values[pr["src"]]
            ti = S.materialise_target(pr["target"], a, shadow.values[pr["src"]], rr.sim, k)
            ti.exact, ti.lowprec = shadow.exact[pr["src"]], shadow.lowprec[pr["src"]]
            infos.append(ti)
            sources.append(a)
        og, of = PR.make_optimize_function(case.get("opt"))
        try:
            for act in case.get("pre") or []:
                ex0 = H.make_executor(rr.sim, case["exec"], H.ExecState())
                kw0 = dict(executor=ex0, optimize_graph=og, optimize_function=of)
                if act == "compute":
                    cubed.compute(*sources, **kw0)
                    rr.sim.count("pre_history_compute")
                else:
                    from sim.store import SimStore

                    t0 = SimStore(name="pre")
                    rr.sim.attach_store(t0)
                    cubed.to_zarr(sources[0], t0, **kw0)
                    rr.sim.count("pre_history_store_other")
        except (H.SimHang, H.SimStepLimit) as e:
            out.update(phase="execute", exc=e)
            return rr, infos, out
        except Exception:  # noqa: BLE001 - the pre-history itself was not accepted: nothing to judge
            out["phase"] = "build_program"
            return rr, infos, out
        out["inter_before"] = rr.store.digest()
        st = H.ExecState()
        rr.st = st
        executor = H.make_executor(rr.sim, case["exec"], st)
        cb = H.make_callback(rr.sim)
        rr.cb = cb
        kw = dict(executor=executor, callbacks=[cb], optimize_graph=og, optimize_function=of)
        targets = [ti.zarr if ti.zarr is not None else ti.store for ti in infos]
        api = case["api"]
        import contextlib

        from sim.monitor import write_monitor

        mon = write_monitor(rr.sim, monitor_records) if monitor_records is not None else contextlib.nullcontext()
        try:
            with mon:
                if api.startswith("to_zarr"):
                    ti = infos[0]
                    if api == "to_zarr_eager":
                        cubed.to_zarr(sources[0], targets[0], path=ti.path, region=ti.region, **kw)
                    else:
                        lazy = cubed.to_zarr(sources[0], targets[0], path=ti.path, region=ti.region, compute=False)
                        out["built"] = True
                        cubed.compute(lazy, _return_in_memory_array=False, **kw)
                else:
                    regions = [ti.region for ti in infos]
                    if all(r is None for r in regions):
                        regions = None
                    elif len(infos) == 1:
                        regions = regions[0]
                    if api == "store_eager":
                        cubed.store(sources, targets, regions=regions, **kw)
                    else:
                        lazy = cubed.store(sources, targets, regions=regions, compute=False)
                        out["built"] = True
                        cubed.compute(*lazy, _return_in_memory_array=False, **kw)
            out["accepted"] = True
        except (H.SimHang, H.SimStepLimit) as e:
            out.update(phase="execute", exc=e)
        except Exception as e:  # noqa: BLE001
            # a rejection is an error raised by the calling code itself (validation), not one that travelled out of
            # the executor; it may come late - after an executor has already run for an earlier pair - and is then
            # still a rejection, judged by "nothing may have been written"
            out.update(phase="execute" if (st.entered and _raised_in_execution(e)) else "build", exc=e,
                       executor_entered_before_rejection=bool(st.entered))
        out["sources"] = sources
        out["shared_ancestry"] = shared_ancestry(sources)
    return rr, infos, out


def _raised_in_execution(e):
    import traceback

    seen = set()
    while e is not None and id(e) not in seen:
        seen.add(id(e))
        for fr in traceback.extract_tb(e.__traceback__):
            if "/cubed/runtime/" in fr.filename or "/verif/sim/" in fr.filename:
                return True
        e = e.__cause__ or e.__context__
    return False


def shared_ancestry(sources):
    """True iff one stored source is (an alias of) another stored source or one of its ancestors."""
    for i, a in enumerate(sources):
        for j, b in enumerate(sources):
            if i == j:
                continue
            if a is b or a.name == b.name:
                return True
            try:
                if a.name in b._plan.dag:
                    return True
            except Exception:  # noqa: BLE001
                pass
    return False


def execute(case, sched=None):
    import zarr

    rr, infos, out = run_scenario(case, sched)
    violations = []
    counters = {}
    sim = rr.sim
    safe = all(S.region_is_safe(ti, s) for ti, s in zip(infos, out.get("sources", [])))
    if out["phase"] == "build_program":
        counters["program_declined"] = 1
    elif out["accepted"]:
        counters["accepted"] = 1
        if not safe:
            # judged by its consequence only: under overlapping tasks an unsafe layout loses data,
            # which the content comparison below reports
            counters["accepted_region_not_on_storage_boundaries"] = 1
        for k, ti in enumerate(infos):
            if ti.expected is None:
                continue
            try:
                ti.store.sh.tracing = False
                z = zarr.open_array(store=ti.store, path=ti.path, mode="r")
                got = z[...]
            except Exception as e:  # noqa: BLE001
                violations.append(dict(cls="target_missing", msg=f"pair {k} ({case['api']}, {ti.desc}): target cannot be opened after the call returned: {type(e).__name__}: {str(e)[:120]}",
                                       n_pairs=len(infos), repeated=_repeated(case),
                                       shared_ancestry=out.get("shared_ancestry")))
                continue
            d = G.compare(np.asarray(got), ti.expected, exact=ti.exact, lowprec=ti.lowprec)
            if d is not None:
                outside = None
                if ti.region is not None and got.shape == ti.expected.shape:
                    m = np.ones(got.shape, bool)
                    m[ti.region] = False
                    outside = bool((np.asarray(got)[m] != ti.expected[m]).any())
                violations.append(dict(cls="target_content_wrong",
                                       msg=f"pair {k} ({case['api']}, target {ti.desc}): {d}" + (" [elements outside the region changed]" if outside else ""),
                                       chunking=ti.desc.get("chunking"), region=ti.desc.get("region"),
                                       sharded=ti.desc.get("sharded"), mode=(case.get("sim") or {}).get("mode"),
                                       n_pairs=len(infos), repeated=_repeated(case), kind=ti.desc.get("kind"),
                                       shared_ancestry=out.get("shared_ancestry")))
    else:
        e = out["exc"]
        if isinstance(e, (H.SimHang, H.SimStepLimit)):
            violations.append(dict(cls="hang", msg=str(e)))
        elif out["phase"] == "build":
            counters["rejected"] = 1
            if out.get("executor_entered_before_rejection"):
                counters["rejected_after_an_executor_ran"] = 1
            if not isinstance(e, ValueError):
                counters["rejected_with_" + type(e).__name__] = 1
            # nothing may have been written before the rejection
            for k, ti in enumerate(infos):
                if ti.zarr is not None:
                    if ti.store.digest() != ti.digest_before:
                        violations.append(dict(cls="written_before_rejection", msg=f"pair {k}: target changed although the call was rejected with {type(e).__name__}: {str(e)[:120]}"))
                elif ti.store.keys():
                    violations.append(dict(cls="written_before_rejection", msg=f"pair {k}: new target store has keys {ti.store.keys()[:3]} although the call was rejected"))
            if rr.store.digest() != out.get("inter_before"):
                violations.append(dict(cls="written_before_rejection", msg=f"intermediate store changed (keys {rr.store.keys()[:3]}...) although the call was rejected"))
            counters["rejected_unsafe" if not safe else "rejected_safe"] = 1
        else:
            counters["failed_execute"] = 1
    c = c01.run_counters(rr, case) if rr.sim else {}
    c.update(counters)
    c["api_" + case["api"]] = 1
    for ti in infos:
        c["target_" + ti.desc["kind"] + ("_" + ti.desc.get("chunking", "") if ti.desc["kind"] == "existing" else "")] = 1
        if ti.desc.get("region") not in (None, "none"):
            c["region_" + ti.desc["region"]] = 1
    c["repeated_source"] = int(_repeated(case))
    dg = PR.digest(rr, extra=(out["accepted"], str(out["phase"]), [ti.store.digest() for ti in infos]))
    nontrivial = bool(out["accepted"]) or out["phase"] == "build"
    return dict(violations=violations, violation=violations[0] if violations else None, digest=dg,
                sig=sig_of(case["prog"], case["pairs"], case["api"], dg), nontrivial=nontrivial, counters=c,
                vtime=sim.now, tape=list(rr.tape.record),
                outcome=dict(phase=out["phase"], exc=repr(out["exc"])[:200] if out["exc"] else None))


def _repeated(case):
    s = [p["src"] for p in case["pairs"]]
    return len(s) != len(set(s))


def shrink(case):
    if case.get("pre"):
        for i in range(len(case["pre"])):
            c = copy.deepcopy(case)
            del c["pre"][i]
            yield c
    # fewer pairs
    if len(case["pairs"]) > 1:
        for i in range(len(case["pairs"])):
            c = copy.deepcopy(case)
            del c["pairs"][i]
            yield c
    # program shrinking that keeps the sources alive
    keep = sorted({p["src"] for p in case["pairs"]})
    base = copy.deepcopy(case)
    base["prog"]["outputs"] = keep
    for p in G.shrink_program(base["prog"]):
        if p is None or not G.valid_program(p) or len(p["outputs"]) != len(keep):
            continue
        # value ids may have been renumbered: map by position in outputs
        remap = dict(zip(keep, p["outputs"]))
        c = copy.deepcopy(case)
        c["prog"] = p
        for pr in c["pairs"]:
            pr["src"] = remap[pr["src"]]
        yield c
    for i, pr in enumerate(case["pairs"]):
        t = pr["target"]
        if t["kind"] == "existing":
            for key, val in (("sharded", False), ("region", "none"), ("chunking", "same")):
                if t.get(key) != val:
                    c = copy.deepcopy(case)
                    c["pairs"][i]["target"][key] = val
                    yield c
    for key, val in (("exec", dict(kind="single")), ("opt", dict(kind="off")), ("sim", dict(mode="atomic", dur="zero"))):
        if case.get(key) != val:
            c = copy.deepcopy(case)
            c[key] = val
            yield c
    if case["api"] != "store_eager" and not any(p["target"]["kind"] == "new_path" for p in case["pairs"]):
        c = copy.deepcopy(case)
        c["api"] = "store_eager"
        yield c


def known(case, violation):
    from checks import findings

    return findings.match(ID, case, violation)
