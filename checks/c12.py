"""C12 - declared shape/dtype/chunks are truthful; written blocks match their region.

Monitors during simulated runs of the C01 generator: before compute the
``shape, dtype, chunks`` of every requested array are recorded; after compute
they are compared with the result and with the backing Zarr array read from the
store; for every array write of every task (write monitor) the value's shape
must equal the shape of the selected region - no broadcast, no truncation - for
intermediate, fused and multi-output operations alike.
"""
from __future__ import annotations

import copy

import numpy as np

from checks import c01
from checks import progrun as PR
from checks.common import sig_of
from gen import programs as G
from sim.monitor import storage_grid, write_monitor
from sim import harness as H
from sim.tape import Tape

ID = "C12"
LEVEL = "exploration"
RULE = (
    "programs from the C01 generator (biased to multi-output, linear-algebra, reduction and rechunk ops) under "
    "seeded executor / optimizer / schedule; invariants evaluated while each run proceeds: every task write has "
    "value.shape == selected region shape and value dtype == array dtype; declared shape/dtype/chunks == result and "
    "backing Zarr array. Non-trivial = accepted program with >= 2 operations executed; distinct = distinct "
    "(program, configuration, digest)."
)
ASSUMPTIONS = c01.ASSUMPTIONS + [
    "array writes of tasks go through zarr.Array.__setitem__ (true for cubed.primitive.blockwise.apply_blockwise)",
]
COMPONENTS = c01.COMPONENTS


def budget(tier):
    if tier == "quick":
        return dict(runs=2000, minutes=None, chunk=30, chunk_wall=900)
    return dict(runs=None, minutes=20.0, chunk=40, chunk_wall=1200)


def generate(tp: Tape, tier: str):
    profile = tp.weighted([("multi", 5), ("general", 4), ("reduce", 3), ("rechunk", 3)])
    case = c01.generate(tp, tier, profile=profile, allow_zero_default=True)
    # second phase: the first requested array is stored lazily into an existing Zarr array of another (or the same)
    # chunking and the *returned* lazy array is used by a further operation
    case["store_then_use"] = tp.weighted([(None, 3), ("ones", 1), ("half", 1), ("same", 1), ("double", 1)])
    return case


def declared(a):
    return dict(shape=tuple(a.shape), dtype=str(a.dtype), chunks=tuple(tuple(c) for c in a.chunks))


def execute(case, sched=None):
    violations = []
    records = []
    with PR.Session(case, sched) as rr:
        ok = PR.build_program(rr)
        decl = [declared(a) for a in rr.arrays] if ok else []
        if ok:
            with write_monitor(rr.sim, records):
                rr.results, rr.phase, rr.exc = PR.compute(rr)
        if rr.results is not None:
            from cubed.storage.zarr import open_if_lazy_zarr_array

            for vid, a, d, res in zip(rr.requested, rr.arrays, decl, rr.results):
                res = np.asarray(res)
                after = declared(a)
                if after != d:
                    violations.append(dict(cls="declared_metadata_changed", msg=f"value {vid}: {d} -> {after}"))
                if tuple(res.shape) != d["shape"]:
                    violations.append(dict(cls="result_shape_differs_from_declared",
                                           msg=f"value {vid}: declared {d['shape']} result {res.shape}"))
                if str(res.dtype) != d["dtype"] and res.dtype.fields is None:
                    violations.append(dict(cls="result_dtype_differs_from_declared",
                                           msg=f"value {vid}: declared {d['dtype']} result {res.dtype}"))
                if a.size > 0 and a.ndim > 0:
                    try:
                        z = open_if_lazy_zarr_array(a._zarray)
                    except Exception as e:  # noqa: BLE001
                        violations.append(dict(cls="backing_array_unreadable", msg=f"value {vid}: {e!r}"))
                        continue
                    if hasattr(z, "shape") and hasattr(z, "store_path"):
                        if tuple(z.shape) != d["shape"] or str(z.dtype) != d["dtype"]:
                            violations.append(dict(cls="backing_array_metadata_differs",
                                                   msg=f"value {vid}: declared {d['shape']}/{d['dtype']} stored {tuple(z.shape)}/{z.dtype}"))
                        grid = storage_grid(z)
                        if not grid_compatible(d["chunks"], grid):
                            violations.append(dict(cls="backing_array_chunks_differ",
                                                   msg=f"value {vid}: declared chunks {d['chunks']} stored grid {grid}"))
        if rr.results is not None and case.get("store_then_use") and not violations:
            violations.extend(store_then_use(rr, case, records))
    # every write: no broadcast, no truncation
    n_checked = 0
    for r in records:
        if r.region_shape is None:
            continue
        n_checked += 1
        # (the dtype of a written block is not judged: cubed legitimately computes e.g. float32 means in
        #  float64 and lets Zarr cast on write; a *declared* dtype that is wrong shows up as a wrong value in C01)
        if tuple(r.value_shape) != tuple(r.region_shape):
            # a 0-d value into a 0-d region etc. are equal; anything else is a broadcast/truncation
            violations.append(dict(
                cls="block_shape_mismatch",
                msg=f"task {r.job} wrote value of shape {r.value_shape} into region {r.selection} of shape "
                    f"{r.region_shape} of array {r.path} (array shape {r.array_shape})",
                op=str(r.job[0]) if r.job else None))
            break
    shadow = G.shadow_of(case["prog"])
    # values too: a broadcast block is a wrong value
    for vid, d in PR.compare_results(rr, shadow):
        step = shadow.producer[vid]
        opname = case["prog"]["steps"][step]["op"] if step >= 0 else "input"
        if tuple(np.asarray(rr.results[rr.requested.index(vid)]).shape) != tuple(shadow.values[vid].shape):
            violations.append(dict(cls="result_shape_differs_from_numpy", msg=f"value {vid} ({opname}): {d}", op=opname))
    counters = c01.run_counters(rr, case)
    counters["writes_checked"] = n_checked
    dg = PR.digest(rr, extra=(len(records),))
    nontrivial = rr.results is not None and counters.get("ops_executed", 0) >= 2
    return dict(violations=violations, violation=violations[0] if violations else None, digest=dg,
                sig=sig_of(case["prog"], case["exec"], case["opt"], dg), nontrivial=nontrivial,
                counters=counters, vtime=rr.sim.now, tape=list(rr.tape.record),
                outcome=dict(phase=rr.phase, exc=repr(rr.exc)[:200] if rr.exc else None))


def store_then_use(rr, case, records):
    """Lazy store of a requested array into an existing Zarr array, then an operation on the returned array."""
    import cubed
    import cubed.array_api as xp
    import zarr

    from sim.store import SimStore

    out = []
    shadow = G.shadow_of(case["prog"])
    for vid, a in zip(rr.requested, rr.arrays):
        if a.ndim == 0 or a.size == 0 or a.dtype.fields is not None or shadow.random[vid]:
            continue
        how = case["store_then_use"]
        cs = a.chunksize
        tchunks = {"ones": tuple(1 for _ in cs), "half": tuple(max(1, c // 2) for c in cs), "same": tuple(cs),
                   "double": tuple(min(n, 2 * c) for n, c in zip(a.shape, cs))}[how]
        ts = SimStore(name="c12target")
        rr.sim.attach_store(ts)
        ts.sh.tracing = False
        z = zarr.create_array(ts, shape=a.shape, dtype=a.dtype, chunks=tchunks)
        ts.sh.tracing = True
        try:
            lazy = cubed.to_zarr(a, z, compute=False)
            down = xp.logical_or(lazy, lazy) if a.dtype.kind == "b" else xp.add(lazy, lazy)
        except Exception:  # noqa: BLE001 - declined while building
            rr.sim.count("store_then_use_declined")
            return out
        d_lazy, d_down = declared(lazy), declared(down)
        with write_monitor(rr.sim, records):
            # (forced-fusion and legacy optimizers have recorded findings of their own - C02/C17 - and are kept out of
            # this phase)
            opt2 = case.get("opt") if (case.get("opt") or {}).get("kind") in ("default", "off", "multi") else dict(kind="default")
            res, phase, exc = PR.compute(rr, opt=opt2, arrays=[lazy, down])
        if res is None:
            if phase == "execute" and not isinstance(exc, (H.SimHang, H.SimStepLimit)):
                out.append(dict(cls="store_then_use_failed_in_execution",
                                msg=f"value {vid} stored lazily into chunks {tchunks} (source chunks {cs}), then used: "
                                    f"{type(exc).__name__}: {str(exc)[:160]} at {PR.exc_where(exc)}"))
            return out
        rr.sim.count("store_then_use_runs")
        want = shadow.values[vid]
        want2 = np.logical_or(want, want) if a.dtype.kind == "b" else want + want
        for label, got, w, d in (("returned array", res[0], want, d_lazy), ("operation on the returned array", res[1], want2, d_down)):
            got = np.asarray(got)
            if tuple(got.shape) != d["shape"]:
                out.append(dict(cls="result_shape_differs_from_declared", msg=f"{label}: declared {d['shape']} result {got.shape}"))
                continue
            dd = G.compare(got, w, exact=shadow.exact[vid], lowprec=shadow.lowprec[vid])
            if dd is not None:
                out.append(dict(cls="wrong_value_after_lazy_store",
                                msg=f"value {vid} stored lazily into chunks {tchunks} (source chunks {cs}): {label}: {dd}; "
                                    f"declared chunks of the returned array {d_lazy['chunks']}, stored grid {storage_grid(z)}"))
        return out
    return out


def grid_compatible(declared_chunks, grid):
    """The stored grid must equal the declared chunks, or be a coarsening/refinement that
    cubed documents (rechunk targets use their own write grid).  We require equality of the
    partition *boundaries* in one direction: every declared boundary is a stored boundary or
    vice versa."""
    for dc, g in zip(declared_chunks, grid):
        def edges(cs):
            acc, out = 0, set()
            for c in cs:
                acc += c
                out.add(acc)
            return out

        e1, e2 = edges(dc), edges(g)
        if sum(dc) != sum(g):
            return False
        if not (e1 <= e2 or e2 <= e1):
            return False
    return True


shrink = c01.shrink


def known(case, violation):
    from checks import findings

    return findings.match(ID, case, violation)
