"""C13 - plan task counts match execution; callbacks see each event exactly once, in order."""
from __future__ import annotations

from checks import c01
from checks import progrun as PR
from checks.common import sig_of
from sim.tape import Tape

ID = "C13"
LEVEL = "exploration"
RULE = (
    "programs from the C01 generator (multi-output ops, rechunks, fused ops, array creation; region stores via the "
    "C11 generator are added as extra outputs) x executors {real single-threaded, threads-on-sim, processes-on-sim} x "
    "optimize_graph x compute_arrays_in_parallel x batch_size x max_workers, seeded schedules, no faults, no backups. "
    "Oracle per operation: primitive_op.num_tasks == len(list(pipeline.mappable)) == bodies executed == sum of "
    "num_tasks over task-end events; plan total == sum; exactly one compute-start/-end; per operation exactly one "
    "start before and one end after all of its task-end events; task-end timestamps ordered on the virtual clock. "
    "Non-trivial = accepted program with >= 2 operations; distinct = distinct (program, configuration, digest)."
)
ASSUMPTIONS = c01.ASSUMPTIONS
COMPONENTS = c01.COMPONENTS


def budget(tier):
    if tier == "quick":
        return dict(runs=2000, minutes=None, chunk=30, chunk_wall=900)
    return dict(runs=None, minutes=20.0, chunk=40, chunk_wall=1200)


def generate(tp: Tape, tier: str):
    profile = tp.weighted([("multi", 4), ("general", 4), ("rechunk", 4), ("reduce", 2), ("wide", 2)])
    if profile == "wide":
        # plans with many (17-48) lazily created arrays: long unfused chains and many requested outputs of cheap
        # operations on small arrays (housekeeping operations such as create-arrays scale with the number of arrays)
        n = tp.randint(17, 48)
        case = c01.generate(tp, tier, profile="elemwise", max_steps=n, min_steps=n, max_outputs=tp.choice([3, 8, 24]),
                            max_extent=6, allow_zero=False)
        if tp.coin(2, 3):
            case["opt"] = dict(kind="off")
        case["profile"] = "wide"
    else:
        case = c01.generate(tp, tier, profile=profile)
    case["store_region"] = tp.coin(1, 3)
    return case


def execute(case, sched=None):
    violations = []
    with PR.Session(case, sched) as rr:
        ok = PR.build_program(rr)
        if ok:
            arrays = list(rr.arrays)
            if case.get("store_region"):
                extra = region_store_array(rr)
                if extra is not None:
                    arrays.append(extra)
            res, rr.phase, rr.exc = PR.compute(rr, arrays=arrays)
            rr.results = res[: len(rr.arrays)] if res is not None else None
        if ok and rr.phase is None and rr.cb is not None and getattr(rr.cb, "dag", None) is not None:
            violations = oracle(rr)
    counters = c01.run_counters(rr, case)
    if rr.cb is not None and getattr(rr.cb, "dag", None) is not None:
        n_arrays = sum(1 for _, d in rr.cb.dag.nodes(data=True) if d.get("type") == "array" and d.get("target") is not None)
        counters["arrays_in_plans_total"] = n_arrays
        counters["plans_with_more_than_16_arrays"] = int(n_arrays > 16)
    dg = PR.digest(rr)
    nontrivial = rr.results is not None and counters.get("ops_executed", 0) >= 2
    return dict(violations=violations, violation=violations[0] if violations else None, digest=dg,
                sig=sig_of(case["prog"], case["exec"], case["opt"], dg), nontrivial=nontrivial,
                counters=counters, vtime=rr.sim.now, tape=list(rr.tape.record),
                outcome=dict(phase=rr.phase, exc=repr(rr.exc)[:200] if rr.exc else None))


def region_store_array(rr):
    """A lazy region store of the first requested array into a larger pre-created target."""
    import cubed
    import zarr

    a = rr.arrays[0]
    if a.ndim == 0 or a.size == 0 or a.dtype.fields is not None:
        return None
    cs = a.chunksize
    # target: two extra chunks before and after along axis 0
    off = cs[0] * 1
    shape = (a.shape[0] + 2 * cs[0],) + tuple(a.shape[1:])
    try:
        if a.shape[0] % cs[0] != 0:
            # region end must align or coincide with the target end: put the region last
            shape = (off + a.shape[0],) + tuple(a.shape[1:])
        tgt = zarr.create_array(store=rr.store, name="region-target", shape=shape, dtype=a.dtype, chunks=cs)
        region = (slice(off, off + a.shape[0]),) + tuple(slice(0, s) for s in a.shape[1:])
        out = cubed.store(a, tgt, regions=region, compute=False)
        rr.sim.count("region_store_added")
        return out[0]
    except Exception:  # noqa: BLE001
        return None


def oracle(rr):
    vs = []
    sim = rr.sim
    dag = rr.cb.dag
    plan = rr.cb.plan
    ev = sim.events
    # --- global event order -------------------------------------------------
    kinds = [e[2] for e in ev if e[2].startswith("cb_")]
    if kinds.count("cb_compute_start") != 1 or kinds.count("cb_compute_end") != 1:
        vs.append(dict(cls="compute_event_count", msg=f"{kinds.count('cb_compute_start')} starts, {kinds.count('cb_compute_end')} ends"))
    elif kinds[0] != "cb_compute_start" or kinds[-1] != "cb_compute_end":
        vs.append(dict(cls="compute_event_order", msg=f"first={kinds[0]} last={kinds[-1]}"))
    # --- per operation --------------------------------------------------------
    op_nodes = {n: d for n, d in dag.nodes(data=True) if d.get("primitive_op") is not None}
    starts, ends, tasks, task_sum = {}, {}, {}, {}
    for e in ev:
        k = e[2]
        if k == "cb_op_start":
            starts.setdefault(e[3], []).append(e[0])
        elif k == "cb_op_end":
            ends.setdefault(e[3], []).append(e[0])
        elif k == "cb_task_end":
            tasks.setdefault(e[3], []).append(e[0])
            task_sum[e[3]] = task_sum.get(e[3], 0) + (e[4] if e[4] is not None else 1)
            ts = [t for t in e[5] if t is not None]
            if ts != sorted(ts):
                vs.append(dict(cls="task_timestamps_unordered", msg=f"{e[3]}: {e[5]}"))
    bodies = {}
    for e in ev:
        if e[2] == "start":
            lab = e[4]
            bodies[lab[0]] = bodies.get(lab[0], 0) + 1
    total = 0
    for name, d in op_nodes.items():
        pop = d["primitive_op"]
        n_adv = pop.num_tasks
        total += n_adv
        n_map = len(list(d["pipeline"].mappable))
        n_body = bodies.get(name, 0)
        n_cb = task_sum.get(name, 0)
        if not (n_adv == n_map == n_body == n_cb):
            vs.append(dict(cls="task_count_mismatch",
                           msg=f"{name} ({d.get('op_name')}): advertised {n_adv}, mappable {n_map}, executed {n_body}, task-end notifications {n_cb}"))
        s, en = starts.get(name, []), ends.get(name, [])
        if len(s) != 1 or len(en) != 1:
            vs.append(dict(cls="operation_event_count", msg=f"{name}: {len(s)} start events, {len(en)} end events"))
        else:
            ts = tasks.get(name, [])
            if ts and not (s[0] < min(ts) and max(ts) < en[0]):
                vs.append(dict(cls="operation_event_order", msg=f"{name}: start seq {s[0]}, task-ends {min(ts)}..{max(ts)}, end seq {en[0]}"))
            if s[0] > en[0]:
                vs.append(dict(cls="operation_event_order", msg=f"{name}: end before start"))
    for name in set(starts) | set(ends) | set(tasks):
        if name not in op_nodes:
            vs.append(dict(cls="event_for_unknown_operation", msg=str(name)))
    if plan is not None and plan.num_tasks != total:
        vs.append(dict(cls="plan_total_mismatch", msg=f"plan.num_tasks={plan.num_tasks} sum over operations={total}"))
    return vs


shrink = c01.shrink


def known(case, violation):
    from checks import findings

    return findings.match(ID, case, violation)
