"""C16 - building, planning and visualizing are lazy and free of side effects.

Every public callable of ``cubed`` and ``cubed.array_api`` (enumerated from
``__all__``; arguments from the generator's tables or generic float/int/bool
arrays) and compositions of them (generated programs) are called with SimStore
as the intermediate store and as every target, with the spec's default executor
being a simulator executor whose entry is recorded; then ``plan()`` with seeded
optimizer settings and ``visualize()`` (output files go to a scratch directory
that is removed).  Oracle on the history: no ``set``, ``delete`` or data-chunk
``get`` on any store, no array metadata key created, executor never entered, no
job submitted - except for the documented eager entry points (``compute``, eager
``store``/``to_zarr``, ``__array__``, ``__bool__/__int__/__float__/__index__/
__complex__``, indexing with a cubed array, ``measure_reserved_mem``), for which
the check asserts the opposite (execution *is* observed), so that the exemption
list cannot silently grow.
"""
from __future__ import annotations

import inspect
import shutil
import tempfile

import numpy as np

from checks import c01
from checks import progrun as PR
from checks.common import sig_of
from gen import programs as G
from sim import harness as H
from sim import store as simstore
from sim.core import Sim, activated, events_digest
from sim.store import is_data_key
from sim.tape import Tape

ID = "C16"
LEVEL = "exploration"
RULE = (
    "each run = one generated program (composition of public functions) built lazily, plus a seeded sample of 12 "
    "further public callables from cubed.__all__ / cubed.array_api.__all__ called with generic arguments, lazy "
    "store/to_zarr, attribute access and repr, plan() under a seeded optimizer and visualize(); then 2 seeded eager "
    "entry points, for which execution must be observed. Side effects are read from the traces of every store and "
    "from executor entry. Non-trivial = >= 3 lazy calls accepted and >= 1 eager entry point exercised; distinct = "
    "distinct (program, sampled callables, digest)."
)
ASSUMPTIONS = c01.ASSUMPTIONS + [
    "reading Zarr *metadata* of an existing input while building (from_zarr opens the array) is not a side effect; "
    "data-chunk reads, any write and any delete are",
    "visualize() needs graphviz's 'dot'; if it is missing the call fails and only its side effects are judged",
]
COMPONENTS = c01.COMPONENTS

EAGER = ["compute", "array_compute", "store_eager", "to_zarr_eager", "__array__", "__bool__", "__int__", "__float__",
         "__index__", "__complex__", "index_with_cubed_array", "measure_reserved_mem"]
SKIP_NAMES = {"Array", "Callback", "Spec", "TaskEndEvent", "config", "compute", "store", "to_zarr", "from_zarr",
              "from_array", "measure_reserved_mem", "raise_if_computes", "visualize", "plan", "random", "linalg",
              "__array_api_version__", "__array_namespace_info__", "__version__", "e", "inf", "nan", "newaxis", "pi",
              "bool", "int8", "int16", "int32", "int64", "uint8", "uint16", "uint32", "uint64", "float32", "float64",
              "complex64", "complex128"}


def budget(tier):
    if tier == "quick":
        return dict(runs=1200, minutes=None, chunk=20, chunk_wall=900)
    return dict(runs=None, minutes=20.0, chunk=25, chunk_wall=1200)


def public_names():
    import cubed
    import cubed.array_api as xp

    names = []
    for mod, prefix in ((cubed, "cubed."), (xp, "xp.")):
        for n in sorted(mod.__all__):
            if n in SKIP_NAMES:
                continue
            if callable(getattr(mod, n, None)):
                names.append(prefix + n)
    # de-duplicate functions exported by both namespaces
    seen, out = set(), []
    for n in names:
        base = n.split(".", 1)[1]
        if base in seen:
            continue
        seen.add(base)
        out.append(n)
    return out


def generate(tp: Tape, tier: str):
    # "take" indexes with a cubed array, which is a documented eager entry point (exercised separately)
    case = c01.generate(tp, tier, profile=tp.choice(["general", "multi", "reduce", "rechunk"]), max_outputs=2,
                        exclude_ops=("take",))
    case["visualize"] = tp.coin(1, 6)
    names = public_names()
    case["callables"] = tp.sample(names, 12)
    # argument variants (0-d cubed arrays where the API accepts scalars, mixed python scalars, ...)
    case["variants"] = [tp.randint(0, 7) for _ in case["callables"]]
    if tp.coin(1, 3):
        # functions that accept scalars or arrays in non-leading positions get extra attention
        hot = [n for n in names if n.split(".", 1)[1] in ("clip", "where", "maximum", "minimum", "add", "multiply", "pow", "full_like")]
        case["callables"] = case["callables"][:9] + tp.sample(hot, 3)
        case["variants"] = case["variants"][:9] + [tp.randint(1, 7) for _ in range(3)]
    case["preexisting_targets"] = tp.coin(1, 2)
    case["eager"] = tp.sample(EAGER, 2)
    # the executor is handed to cubed through Spec(executor=...), which the processes executor would pickle
    case["exec"] = H.exec_cfg_from_tape(tp, kinds=("single", "threads"))
    case["opt"] = PR.gen_opt(tp)
    return case


def generic_call(name, spec, variant=0):
    """Call a public function with generic arguments; returns the (lazy) result or raises."""
    import cubed
    import cubed.array_api as xp

    mod, fn = name.split(".", 1)
    f = getattr(cubed if mod == "cubed" else xp, fn)
    a = xp.asarray(np.arange(12.0).reshape(3, 4) / 7 + 0.25, chunks=(2, 2), spec=spec)
    b = xp.asarray(np.arange(12.0).reshape(3, 4) / 5 + 0.5, chunks=(2, 3), spec=spec)
    i = xp.asarray(np.arange(12).reshape(3, 4), chunks=(2, 2), spec=spec)
    j = xp.asarray(np.arange(12).reshape(3, 4) % 3 + 1, chunks=(3, 2), spec=spec)
    m = xp.asarray(np.arange(12).reshape(3, 4) % 2 == 0, chunks=(2, 2), spec=spec)
    v = xp.asarray(np.arange(6.0), chunks=2, spec=spec)
    rotate = False
    creation = {"full", "ones", "zeros", "empty", "eye", "arange", "linspace", "tril", "triu", "meshgrid",
                "broadcast_shapes", "result_type", "can_cast", "finfo", "iinfo", "isdtype"}
    if fn in ("broadcast_shapes", "result_type", "can_cast", "finfo", "iinfo", "isdtype"):
        attempts = [lambda: f((3, 1), (1, 4)), lambda: f(xp.float32, xp.float64), lambda: f(xp.float64),
                    lambda: f(xp.int32), lambda: f(xp.float32, "real floating")]
    elif fn in creation:
        attempts = [
            lambda: f((3, 4), chunks=(2, 2), spec=spec), lambda: f((3, 4), 1.5, chunks=(2, 2), spec=spec),
            lambda: f(4, chunks=2, spec=spec), lambda: f(0, 5, 6, chunks=2, spec=spec), lambda: f(a), lambda: f(v, v[:3]),
            lambda: f((3, 1), (1, 4)), lambda: f(a, b), lambda: f(xp.float32, xp.float64), lambda: f(xp.float64),
            lambda: f(xp.int32), lambda: f(xp.float32, "real floating"), lambda: f(a, xp.float32),
        ]
    else:
        attempts = None
    if attempts is None:
        # choose arguments from the signature: (x1, x2, /) binary elementwise, (x, /, ...) unary / reductions
        try:
            params = list(inspect.signature(f).parameters)
        except (TypeError, ValueError):
            params = []
        table = {
            "where": [lambda: f(m, a, b), lambda: f(m, a, 1.0), lambda: f(m, xp.sum(a), b), lambda: f(a > xp.mean(a), a, b)],
            "clip": [lambda: f(a, 0.5, 1.5), lambda: f(a, xp.min(b), xp.max(b)), lambda: f(a, b * 0, b),
                     lambda: f(a, None, xp.max(b)), lambda: f(i, xp.min(j), 7)],
            "concat": [lambda: f([a, a], axis=0)],
            "stack": [lambda: f([a, a])],
            "reshape": [lambda: f(a, (4, 3))],
            "broadcast_to": [lambda: f(v, (2, 6))],
            "broadcast_arrays": [lambda: f(a, a)],
            "tile": [lambda: f(a, (2, 1))],
            "repeat": [lambda: f(a, 2, axis=0)],
            "roll": [lambda: f(a, 1, axis=0)],
            "expand_dims": [lambda: f(a, axis=0)],
            "permute_dims": [lambda: f(a, (1, 0))],
            "moveaxis": [lambda: f(a, 0, 1)],
            "squeeze": [lambda: f(xp.expand_dims(a, axis=0), axis=0)],
            "flip": [lambda: f(a, axis=0)],
            "unstack": [lambda: f(a, axis=0)],
            "astype": [lambda: f(a, xp.float32)],
            "matmul": [lambda: f(a, xp.matrix_transpose(b))],
            "tensordot": [lambda: f(a, b, axes=((0, 1), (0, 1)))],
            "vecdot": [lambda: f(a, a)],
            "searchsorted": [lambda: f(v, v)],
            "isin": [lambda: f(i, j)],
            "pad": [lambda: f(a, ((1, 0), (0, 0)), mode="constant")],
            "map_blocks": [lambda: f(lambda x: x * 2, a, dtype=a.dtype)],
            "map_overlap": [lambda: f(lambda x: x, a, dtype=a.dtype, chunks=a.chunks, depth=1, boundary=0.0, trim=False)],
            "apply_gufunc": [lambda: f(lambda x, y: x + y, "(),()->()", a, b, output_dtypes=a.dtype)],
            "rechunk": [lambda: f(a, (3, 1))],
            "asarray": [lambda: f(np.arange(4.0), chunks=2, spec=spec)],
            "ones_like": [lambda: f(a)], "zeros_like": [lambda: f(a)], "empty_like": [lambda: f(a)],
            "full_like": [lambda: f(a, 2.0), lambda: f(i, 3)],
            "maximum": [lambda: f(a, b), lambda: f(a, xp.max(b))], "minimum": [lambda: f(a, b), lambda: f(a, xp.min(b))],
            "add": [lambda: f(a, b), lambda: f(a, xp.sum(b)), lambda: f(xp.sum(a), xp.sum(b))],
            "multiply": [lambda: f(a, b), lambda: f(xp.mean(a), b)],
            "pow": [lambda: f(a, b), lambda: f(a, xp.asarray(2.0, spec=spec))],
            "diff": [lambda: f(a, axis=0)], "cumulative_sum": [lambda: f(a, axis=0)],
            "cumulative_prod": [lambda: f(a, axis=0)], "nancumsum": [lambda: f(a, axis=0)],
            "nancumprod": [lambda: f(a, axis=0)],
        }
        if fn == "take":
            raise NotImplementedError("take indexes with a cubed array: an eager entry point, exercised separately")
        if fn in table:
            attempts = table[fn]
            rotate = True
        elif params[:2] == ["x1", "x2"]:
            attempts = [lambda: f(a, b), lambda: f(i, j), lambda: f(m, m)]
        elif params[:1] == ["x"]:
            attempts = [lambda: f(a), lambda: f(i), lambda: f(m), lambda: f(a, axis=0)]
        else:
            raise NotImplementedError(f"no generic arguments for {name}{params[:4]}")
    if variant and len(attempts) > 1 and rotate:
        k0 = variant % len(attempts)
        attempts = attempts[k0:] + attempts[:k0]
    last = None
    for k, att in enumerate(attempts):
        try:
            return att(), k
        except Exception as e:  # noqa: BLE001
            last = e
    raise last


def side_effects(sim, since):
    """Store-level side effects after trace positions ``since`` ({store name: index})."""
    out = []
    for st in sim.stores:
        tr = st.trace[since.get(st.sh.name, 0):]
        for (seq, t, job, op, key, outcome, nbytes, sha) in tr:
            if op in ("set", "commit", "set_if_not_exists", "delete", "commit_delete", "clear"):
                out.append((st.sh.name, op, key))
            elif op == "get" and is_data_key(key):
                out.append((st.sh.name, "data-get", key))
    return out


def mark(sim):
    return {st.sh.name: len(st.trace) for st in sim.stores}


def execute(case, sched=None):
    import cubed
    import cubed.array_api as xp

    tape = Tape(case["sched_seed"]) if sched is None else Tape(replay=sched)
    H.reset_globals(case.get("py_seed", 0))
    sim = Sim(tape, case.get("sim"))
    store = simstore.SimStore(name="inter")
    src = simstore.SimStore(name="src")
    tgt = simstore.SimStore(name="target")
    for s in (store, src, tgt):
        sim.attach_store(s)
    violations = []
    counters = {"lazy_calls": 0, "lazy_calls_declined": 0, "eager_calls": 0}
    scratch = tempfile.mkdtemp(prefix="verif-c16-")
    st = H.ExecState()
    lazy_ok = 0
    eager_ok = 0
    try:
        with activated(sim), H.quiet(), H.single_job_labels(sim):
            executor = H.make_executor(sim, case["exec"], st)
            spec = H.make_spec(store, allowed_mem=200_000_000, reserved_mem=0, compressor=case.get("compressor"),
                               executor=executor)
            # pre-existing inputs are written with tracing off (this is set-up, not the call under test)
            src.sh.tracing = False
            import zarr

            for k, inp in enumerate(case["prog"]["inputs"]):
                pass
            src.sh.tracing = True

            def lazy(label, thunk):
                nonlocal lazy_ok
                m0 = mark(sim)
                e0 = st.entered
                j0 = len(sim.jobs)
                try:
                    r = thunk()
                    counters["lazy_calls"] += 1
                    lazy_ok += 1
                except Exception as e:  # noqa: BLE001
                    r = None
                    counters["lazy_calls_declined"] += 1
                se = side_effects(sim, m0)
                if label.startswith("build") or label.startswith("from_zarr"):
                    # creating the pre-existing Zarr inputs is set-up
                    se = [x for x in se if x[0] != "src"]
                if se:
                    violations.append(dict(cls="store_side_effect_in_lazy_call", msg=f"{label}: {se[:4]}", call=label))
                if st.entered != e0 or len(sim.jobs) != j0:
                    violations.append(dict(cls="execution_in_lazy_call", msg=f"{label}: executor entered {st.entered - e0} times, {len(sim.jobs) - j0} jobs submitted", call=label))
                return r

            built = lazy("build program", lambda: G.build(case["prog"], spec, src))
            arrays = []
            if built is not None:
                arrays = [built.values[o] for o in case["prog"]["outputs"] if built.values[o] is not None]
                for d in built.declines:
                    pass
            for name, var in zip(case["callables"], case.get("variants") or [0] * len(case["callables"])):
                lazy(name, lambda name=name, var=var: generic_call(name, spec, var))
                counters["callable_" + name] = 1
            if arrays:
                a0 = arrays[0]
                lazy("attributes", lambda: (a0.shape, a0.dtype, a0.chunks, a0.nbytes, a0.npartitions, repr(a0), a0.chunkmem))
                if hasattr(a0, "_repr_html_"):
                    lazy("_repr_html_", lambda: a0._repr_html_())
                og, of = PR.make_optimize_function(case.get("opt"))
                lazy("plan", lambda: cubed.plan(*arrays, optimize_graph=og, optimize_function=of))
                lazy("array.plan", lambda: a0.plan(optimize_graph=og, optimize_function=of))
                lazy("plan stats", lambda: (lambda p: (p.num_tasks, p.max_projected_mem, p.total_nbytes_written, p.num_stages))(
                    cubed.plan(*arrays, optimize_graph=og, optimize_function=of)))
                if case.get("visualize"):
                    lazy("visualize", lambda: cubed.visualize(*arrays, filename=scratch + "/v", optimize_graph=og, optimize_function=of))
                    counters["visualize_calls"] = 1
                if a0.ndim > 0 and a0.size > 0:
                    t2 = simstore_target(sim, "t2")
                    if case.get("preexisting_targets"):
                        # an array of a different geometry already lives at the target location (set-up, untraced)
                        for tstore, tpath in ((tgt, "lazy/a"), (t2, None)):
                            tstore.sh.tracing = False
                            try:
                                old_ = zarr.create_array(store=tstore, name=tpath, shape=(5, 3), dtype="int16", chunks=(2, 3))
                                old_[...] = 7
                            finally:
                                tstore.sh.tracing = True
                        counters["lazy_store_onto_existing_array"] = 1
                    lazy("to_zarr lazy", lambda: cubed.to_zarr(a0 + 0 if a0.dtype.kind in "iuf" else a0, tgt, path="lazy/a", compute=False))
                    lazy("store lazy", lambda: cubed.store([arrays[-1]], [t2], compute=False))
                    lazy("blocks", lambda: a0.blocks[(0,) * a0.ndim])
            # ---- a storage-backed array-like that is not a zarr.Array (h5py / netCDF variable, wrapper ...) ----------
            src.sh.tracing = False
            try:
                zsrc = zarr.create_array(store=src, name="lazy_like", shape=(6, 4), dtype="float64", chunks=(2, 4))
                zsrc[...] = np.arange(24.0).reshape(6, 4)
            finally:
                src.sh.tracing = True
            ll = lazy("from_array(storage-backed array-like)", lambda: cubed.from_array(_LazyLike(zsrc), chunks=(3, 2), spec=spec))
            if ll is not None:
                lazy("plan of from_array(storage-backed array-like)", lambda: cubed.plan(ll + 1.0))
                counters["lazy_like_sources"] = 1
            # ---- eager entry points: execution must be observed -------------------------
            e_arr = xp.asarray(np.arange(6.0).reshape(2, 3), chunks=(1, 2), spec=spec) + 1.0
            scalar = xp.sum(xp.asarray(np.array([1, 2, 3]), chunks=2, spec=spec))
            for name in case["eager"]:
                m0 = mark(sim)
                e0 = st.entered
                try:
                    run_eager(name, e_arr, scalar, spec, executor, sim, scratch)
                    counters["eager_calls"] += 1
                    eager_ok += 1
                except Exception as e:  # noqa: BLE001
                    violations.append(dict(cls="eager_entry_point_failed", msg=f"{name}: {type(e).__name__}: {str(e)[:160]}", call=name))
                    continue
                if st.entered == e0:
                    violations.append(dict(cls="eager_entry_point_did_not_execute", msg=f"{name}: executor was not entered", call=name))
                counters["eager_" + name] = 1
    finally:
        shutil.rmtree(scratch, ignore_errors=True)
    dg = events_digest(sim, extra=(case["callables"], case["eager"], lazy_ok, eager_ok))
    return dict(violations=violations, violation=violations[0] if violations else None, digest=dg,
                sig=sig_of(case["prog"], case["callables"], case["eager"], dg),
                nontrivial=lazy_ok >= 3 and eager_ok >= 1, counters=counters, vtime=sim.now,
                tape=list(tape.record), outcome=dict(lazy_ok=lazy_ok, eager_ok=eager_ok))


class _LazyLike:
    """Array-like over stored data without __array_function__: from_array must not load it while building."""

    def __init__(self, z):
        self._z = z
        self.shape, self.dtype, self.ndim = z.shape, z.dtype, z.ndim

    def __getitem__(self, key):
        return self._z[key]

    def __array__(self, dtype=None, copy=None):
        return np.asarray(self._z[...], dtype=dtype)

    def __len__(self):
        return self.shape[0]


def simstore_target(sim, name):
    t = simstore.SimStore(name=name)
    sim.attach_store(t)
    return t


def run_eager(name, arr, scalar, spec, executor, sim, scratch):
    import cubed
    import cubed.array_api as xp

    if name == "compute":
        cubed.compute(arr, executor=executor)
    elif name == "array_compute":
        arr.compute()
    elif name == "store_eager":
        cubed.store([arr], [simstore_target(sim, "eager-store")], executor=executor)
    elif name == "to_zarr_eager":
        cubed.to_zarr(arr, simstore_target(sim, "eager-tozarr"), executor=executor)
    elif name == "__array__":
        np.asarray(arr)
    elif name == "__bool__":
        bool(scalar > 0)
    elif name == "__int__":
        int(scalar)
    elif name == "__float__":
        float(xp.astype(scalar, xp.float64))
    elif name == "__index__":
        [10, 20, 30, 40, 50, 60, 70][scalar]
    elif name == "__complex__":
        complex(xp.astype(scalar, xp.float64))
    elif name == "index_with_cubed_array":
        idx = xp.asarray(np.array([1, 0]), chunks=1, spec=spec) + 0
        arr[idx, :]
    elif name == "measure_reserved_mem":
        cubed.measure_reserved_mem(executor=executor, work_dir=scratch)
    else:
        raise ValueError(name)


def shrink(case):
    import copy

    for c in c01.shrink(case):
        yield c
    if len(case["callables"]) > 1:
        for n in case["callables"]:
            c = copy.deepcopy(case)
            c["callables"] = [x for x in case["callables"] if x != n]
            yield c
    if len(case["eager"]) > 1:
        for n in case["eager"]:
            c = copy.deepcopy(case)
            c["eager"] = [x for x in case["eager"] if x != n]
            yield c


def known(case, violation):
    from checks import findings

    return findings.match(ID, case, violation)
