"""C17 - unsupported requests are refused up front; accepted plans do not fail mid-run.

C01 generator plus a 'hostile' profile (layouts cubed does not support: several
column chunks for qr, mismatched chunk sizes for concat, scans over many chunks,
reshape patterns, ...).  Every run is fault-free - that qualifier is a simulator
configuration - and the executor seam tells the phases apart: build (while the
expression is constructed), plan (plan()/admission, before execute_dag is
entered), execute (after execute_dag was entered).  Oracle, whenever NumPy
evaluates the expression: an exception in build/plan has type ValueError |
TypeError | NotImplementedError | IndexError; no exception of any type in the
execute phase.
"""
from __future__ import annotations

from checks import c01
from checks import progrun as PR
from checks.common import sig_of
from sim.tape import Tape

ID = "C17"
LEVEL = "exploration"
RULE = (
    "programs from the C01 generator, half of them with the 'hostile' profile (qr/svd on arbitrary chunkings, scans "
    "over many chunks, reshape/concat/stack/pad/map_overlap/groupby/var on awkward geometries), fault-free simulator "
    "configuration, seeded executor/optimizer/schedule; the phase (build / plan / execute) and type of every "
    "exception is recorded. Non-trivial = the program contains >= 1 step; distinct = distinct (program, digest)."
)
ASSUMPTIONS = c01.ASSUMPTIONS + [
    "'NumPy can evaluate the expression' is decided by the generator's NumPy shadow",
    "memory-budget refusals (ValueError from plan validation) count as explicit refusals",
]
COMPONENTS = c01.COMPONENTS
ALLOWED = (ValueError, TypeError, NotImplementedError, IndexError)


def budget(tier):
    if tier == "quick":
        return dict(runs=2400, minutes=None, chunk=30, chunk_wall=900)
    return dict(runs=None, minutes=20.0, chunk=40, chunk_wall=1200)


def generate(tp: Tape, tier: str):
    profile = tp.weighted([("hostile", 6), ("general", 3), ("reduce", 2), ("multi", 1)])
    case = c01.generate(tp, tier, profile=profile, allow_zero_default=True)
    return case


def execute(case, sched=None):
    rr = PR.run_program(case, sched)
    violations = []
    prog = case["prog"]
    if rr.built is not None:
        for d in rr.built.declines:
            if not isinstance(d.exc, ALLOWED):
                op = prog["steps"][d.step_index]["op"]
                violations.append(dict(cls=f"build_error_type:{type(d.exc).__name__}",
                                       msg=f"step {d.step_index} ({op}): {type(d.exc).__name__}: {str(d.exc)[:200]} at {PR.exc_where(d.exc)}",
                                       op=op, where=PR.exc_where(d.exc), exc_type=type(d.exc).__name__))
    elif rr.phase == "build" and not isinstance(rr.exc, ALLOWED):
        violations.append(dict(cls=f"build_error_type:{type(rr.exc).__name__}", msg=f"input creation: {rr.exc!r}",
                               op="input", where=PR.exc_where(rr.exc), exc_type=type(rr.exc).__name__))
    if rr.phase == "plan" and not isinstance(rr.exc, ALLOWED):
        violations.append(dict(cls=f"plan_error_type:{type(rr.exc).__name__}",
                               msg=f"{type(rr.exc).__name__}: {str(rr.exc)[:200]} at {PR.exc_where(rr.exc)}",
                               where=PR.exc_where(rr.exc), exc_type=type(rr.exc).__name__))
    if rr.phase == "execute":
        violations.append(dict(cls=f"failed_after_execution_started:{type(rr.exc).__name__}",
                               msg=f"{type(rr.exc).__name__}: {str(rr.exc)[:200]} at {PR.exc_where(rr.exc)}",
                               where=PR.exc_where(rr.exc), exc_type=type(rr.exc).__name__,
                               ops=PR.ops_used(prog)))
    counters = c01.run_counters(rr, case)
    if rr.built is not None:
        for d in rr.built.declines:
            counters["decline_" + type(d.exc).__name__] = counters.get("decline_" + type(d.exc).__name__, 0) + 1
    dg = PR.digest(rr)
    return dict(violations=violations, violation=violations[0] if violations else None, digest=dg,
                sig=sig_of(case["prog"], dg), nontrivial=len(prog["steps"]) >= 1,
                counters=counters, vtime=rr.sim.now if rr.sim else 0.0, tape=list(rr.tape.record),
                outcome=dict(phase=rr.phase, exc=repr(rr.exc)[:200] if rr.exc else None))


shrink = c01.shrink


def known(case, violation):
    from checks import findings

    return findings.match(ID, case, violation)
