"""C17 - unsupported requests are refused up front; accepted plans do not fail mid-run.

C01 generator plus a 'hostile' profile (layouts cubed does not support: several
column chunks for qr, mismatched chunk sizes for concat, scans over many chunks,
reshape patterns, ...).  Every run is fault-free - that qualifier is a simulator
configuration - and the executor seam tells the phases apart: build (while the
expression is constructed), plan (plan()/admission, before execute_dag is
entered), execute (after execute_dag was entered).  Oracle, whenever NumPy
evaluates the expression: an exception in build/plan has type ValueError |
TypeError | NotImplementedError | IndexError; no exception of any type in the
execute phase.
"""
from __future__ import annotations

from checks import c01
from checks import progrun as PR
from checks.common import sig_of
from sim.tape import Tape

ID = "C17"
LEVEL = "exploration"
RULE = (
    "programs from the C01 generator, half of them with the 'hostile' profile (qr/svd on arbitrary chunkings, scans "
    "over many chunks, reshape/concat/stack/pad/map_overlap/groupby/var on awkward geometries), fault-free simulator "
    "configuration, seeded executor/optimizer/schedule; the phase (build / plan / execute) and type of every "
    "exception is recorded. Non-trivial = the program contains >= 1 step; distinct = distinct (program, digest)."
)
ASSUMPTIONS = c01.ASSUMPTIONS + [
    "'NumPy can evaluate the expression' is decided by the generator's NumPy shadow",
    "memory-budget refusals (ValueError from plan validation) count as explicit refusals",
]
COMPONENTS = c01.COMPONENTS
ALLOWED = (ValueError, TypeError, NotImplementedError, IndexError)


def budget(tier):
    if tier == "quick":
        return dict(runs=2400, minutes=None, chunk=30, chunk_wall=900)
    return dict(runs=None, minutes=20.0, chunk=40, chunk_wall=1200)


def generate(tp: Tape, tier: str):
    profile = tp.weighted([("hostile", 6), ("general", 3), ("reduce", 2), ("multi", 1)])
    case = c01.generate(tp, tier, profile=profile, allow_zero_default=True)
    k = tp.weighted([("none", 8), ("qr_edge", 1), ("scan_many_chunks", 1), ("index_pairs", 1)])
    if k == "qr_edge":
        # tall-and-skinny inputs whose last row chunk is shorter than the others / than the column count
        m = tp.randint(1, 4)
        c = tp.randint(max(1, m - 1), m + 3)
        n = c * tp.randint(1, 4) + tp.randint(0, c - 1)
        inp = dict(shape=[max(n, m), m], chunks=[c, tp.choice([m, m, max(1, m - 1)])], dtype="float64",
                   src=tp.choice(["asarray", "from_zarr"]), data_seed=tp.randint(0, 10**6), nan=False)
        op = tp.choice(["qr_recon", "svd_recon", "svd_s", "qr"])
        if op.startswith("svd") and tp.coin(1, 2):
            # wide or square matrices, in one chunk or split along either axis (NumPy's reduced SVD takes them all)
            r, q = tp.randint(1, 5), tp.randint(1, 7)
            inp = dict(shape=[r, q], chunks=[tp.choice([r, r, max(1, r // 2)]), tp.choice([q, q, max(1, q // 2)])],
                       dtype="float64", src=tp.choice(["asarray", "from_zarr"]), data_seed=tp.randint(0, 10**6), nan=False)
        case["prog"] = dict(inputs=[inp], steps=[dict(op=op, args=[0], p={})], outputs=[1])
    elif k == "index_pairs":
        # two advanced indices in one subscript (integer array / 1-d mask / integer on two axes): NumPy evaluates
        # them, cubed supports at most one integer array after canonicalisation and must say so while building -
        # whatever the chunk geometry and the number of selected elements happen to be
        r, q = tp.randint(2, 6), tp.randint(2, 6)
        c0, c1 = tp.randint(1, min(3, r)), tp.randint(1, min(3, q))
        n = c0 + c1 if tp.coin(1, 2) else tp.randint(1, 4)
        form = tp.choice(["arr_int", "int_arr", "mask_int", "mask_arr", "arr_mask"])

        def mask(size, ntrue):
            ntrue = max(1, min(size, ntrue))
            pos = set(tp.shuffle(list(range(size)))[:ntrue])
            return ["m", [i in pos for i in range(size)]]

        if form == "arr_int":
            idx = [["a", [tp.randint(0, r - 1) for _ in range(n)]], ["i", tp.randint(0, q - 1)]]
        elif form == "int_arr":
            idx = [["i", tp.randint(0, r - 1)], ["a", [tp.randint(0, q - 1) for _ in range(n)]]]
        elif form == "mask_int":
            idx = [mask(r, n), ["i", tp.randint(0, q - 1)]]
        elif form == "mask_arr":
            m_ = mask(r, n)
            idx = [m_, ["a", [tp.randint(0, q - 1) for _ in range(sum(m_[1]))]]]
        else:
            m_ = mask(q, n)
            idx = [["a", [tp.randint(0, r - 1) for _ in range(sum(m_[1]))]], m_]
        inp = dict(shape=[r, q], chunks=[c0, c1], dtype=tp.choice(["int64", "float64"]),
                   src=tp.choice(["asarray", "from_zarr"]), data_seed=tp.randint(0, 10**6), nan=False)
        case["prog"] = dict(inputs=[inp], steps=[dict(op="getitem", args=[0], p=dict(idx=idx))], outputs=[1])
    elif k == "scan_many_chunks":
        # scans over many chunks: the supported chunk counts form a pattern (<= 5, or multiples of 5 at every level)
        nb = tp.choice([tp.randint(2, 12), 5 * tp.randint(2, 16), 25 * tp.randint(1, 3), tp.randint(13, 80)])
        c = tp.choice([1, 1, 2])
        n = nb * c - tp.randint(0, c - 1)
        other = tp.choice([None, 2, 3])
        shape = [n] if other is None else ([other, n] if tp.coin() else [n, other])
        axis = shape.index(n)
        chunks = [c if i == axis else s for i, s in enumerate(shape)]
        inp = dict(shape=shape, chunks=chunks, dtype=tp.choice(["int64", "float64"]), src="asarray",
                   data_seed=tp.randint(0, 10**6), nan=False)
        fn = tp.choice(["cumulative_sum", "cumulative_sum", "cumulative_prod"])
        case["prog"] = dict(inputs=[inp], steps=[dict(op="cumulative", args=[0], p=dict(axis=axis, fn=fn, include_initial=False))],
                            outputs=[1])
    case["targeted"] = k
    return case


def execute(case, sched=None):
    rr = PR.run_program(case, sched)
    violations = []
    prog = case["prog"]
    if rr.built is not None:
        for d in rr.built.declines:
            if not isinstance(d.exc, ALLOWED):
                op = prog["steps"][d.step_index]["op"]
                violations.append(dict(cls=f"build_error_type:{type(d.exc).__name__}",
                                       msg=f"step {d.step_index} ({op}): {type(d.exc).__name__}: {str(d.exc)[:200]} at {PR.exc_where(d.exc)}",
                                       op=op, where=PR.exc_where(d.exc), exc_type=type(d.exc).__name__))
    elif rr.phase == "build" and not isinstance(rr.exc, ALLOWED):
        violations.append(dict(cls=f"build_error_type:{type(rr.exc).__name__}", msg=f"input creation: {rr.exc!r}",
                               op="input", where=PR.exc_where(rr.exc), exc_type=type(rr.exc).__name__))
    if rr.phase == "plan" and not isinstance(rr.exc, ALLOWED):
        violations.append(dict(cls=f"plan_error_type:{type(rr.exc).__name__}",
                               msg=f"{type(rr.exc).__name__}: {str(rr.exc)[:200]} at {PR.exc_where(rr.exc)}",
                               where=PR.exc_where(rr.exc), exc_type=type(rr.exc).__name__))
    if rr.phase == "execute":
        violations.append(dict(cls=f"failed_after_execution_started:{type(rr.exc).__name__}",
                               msg=f"{type(rr.exc).__name__}: {str(rr.exc)[:200]} at {PR.exc_where(rr.exc)}",
                               where=PR.exc_where(rr.exc), exc_type=type(rr.exc).__name__,
                               ops=PR.ops_used(prog)))
    counters = c01.run_counters(rr, case)
    if rr.built is not None:
        for d in rr.built.declines:
            counters["decline_" + type(d.exc).__name__] = counters.get("decline_" + type(d.exc).__name__, 0) + 1
    dg = PR.digest(rr)
    return dict(violations=violations, violation=violations[0] if violations else None, digest=dg,
                sig=sig_of(case["prog"], dg), nontrivial=len(prog["steps"]) >= 1,
                counters=counters, vtime=rr.sim.now if rr.sim else 0.0, tape=list(rr.tape.record),
                outcome=dict(phase=rr.phase, exc=repr(rr.exc)[:200] if rr.exc else None))


shrink = c01.shrink


def known(case, violation):
    from checks import findings

    return findings.match(ID, case, violation)
