"""C19 - acceptance and results do not depend on how resources are configured.

Resource settings are treated the way DST treats tuning knobs: randomised per
run so that correctness cannot silently depend on one configuration.  The same
generated program is built under several configurations - global default
config, explicit Spec equal to it, explicit Specs differing in work_dir,
intermediate store, compressor, reserved_mem, executor, larger allowed_mem -
and the acceptance decision (accepted, or declined with the same exception
class in the same phase) and the computed values must agree across all of them
and with NumPy.
"""
from __future__ import annotations

import contextlib
import shutil
import tempfile

import numpy as np

from checks import c01
from checks import progrun as PR
from checks.common import sig_of
from gen import programs as G
from sim import harness as H
from sim import store as simstore
from sim.core import Sim, activated
from sim.tape import Tape

ID = "C19"
LEVEL = "exploration"
RULE = (
    "each run builds one generated program under 3 resource configurations drawn from {global default config "
    "(cubed.config, no spec argument), explicit Spec equal to the default, explicit Spec with a different work_dir, "
    "an intermediate_store (SimStore), zarr_compressor in {None, 'auto', explicit codec dict}, a different "
    "reserved_mem, an executor given through the Spec, a larger allowed_mem} and computes it under the simulator. "
    "Oracle: per-step build declines (exception class), the phase/class of any compute exception and all computed "
    "values agree across variants and with NumPy. Non-trivial = >= 2 variants accepted the program and executed >= 1 "
    "operation; distinct = distinct (program, variant set, digest)."
)
ASSUMPTIONS = c01.ASSUMPTIONS + [
    "allowed memory is large (>= 2 GB) in every variant, so that memory admission never differs",
    "work_dir variants write to a scratch directory on the real local filesystem (removed after the run)",
]
COMPONENTS = dict(c01.COMPONENTS)
COMPONENTS["real"] = COMPONENTS["real"] + ["local filesystem store for work_dir variants"]

TIGHT = [None]
VARIANTS = ["default_config", "explicit_equal", "work_dir2", "inter_store", "compressor_none", "compressor_dict",
            "reserved", "executor_in_spec", "bigger_allowed"]


def budget(tier):
    if tier == "quick":
        return dict(runs=900, minutes=None, chunk=15, chunk_wall=900)
    return dict(runs=None, minutes=20.0, chunk=20, chunk_wall=1200)


def generate(tp: Tape, tier: str):
    profile = tp.weighted([("general", 6), ("hostile", 3), ("reduce", 2), ("multi", 2)])
    case = c01.generate(tp, tier, profile=profile)
    others = tp.sample(VARIANTS[1:], 2)
    case["variants"] = ["default_config"] + others
    if tp.coin(1, 3):
        # tight budgets: two specs that leave the same memory for data (allowed A / reserved 0 versus
        # allowed A+R / reserved R) must take the same decisions (rechunk planning, fusion, admission)
        case = c01.generate(tp, tier, profile=tp.choice(["rechunk", "rechunk", "general", "reduce"]),
                            max_extent=tp.choice([24, 40]), dtypes=["float64", "int64"])
        a = tp.choice([20_000, 50_000, 100_000, 400_000])
        case["tight"] = dict(A=a, R=a * tp.choice([1, 3, 10]))
        case["variants"] = ["tight_base", "tight_reserved"]
    case["exec"] = H.exec_cfg_from_tape(tp, kinds=("single", "single", "threads"))
    case["opt"] = dict(kind="default")
    return case


def make_variant_spec(name, scratch, sim, executor):
    """Returns (spec or None, context manager for the global config)."""
    import cubed

    base = dict(allowed_mem="2GB", reserved_mem="100MB")
    cfg = contextlib.nullcontext()
    if name in ("tight_base", "tight_reserved"):
        st = simstore.SimStore(name="inter-" + name)
        sim.attach_store(st)
        t = TIGHT[0]
        if name == "tight_base":
            return cubed.Spec(intermediate_store=st, allowed_mem=t["A"], reserved_mem=0, zarr_compressor=None), cfg
        return cubed.Spec(intermediate_store=st, allowed_mem=t["A"] + t["R"], reserved_mem=t["R"], zarr_compressor=None), cfg
    if name == "default_config":
        cfg = cubed.config.set({"spec.work_dir": scratch + "/d"})
        return None, cfg
    if name == "explicit_equal":
        return cubed.Spec(work_dir=scratch + "/d", **base), cfg
    if name == "work_dir2":
        return cubed.Spec(work_dir=scratch + "/w2", **base), cfg
    if name == "inter_store":
        st = simstore.SimStore(name="inter-" + name)
        sim.attach_store(st)
        return cubed.Spec(intermediate_store=st, **base), cfg
    if name == "compressor_none":
        return cubed.Spec(work_dir=scratch + "/d", zarr_compressor=None, **base), cfg
    if name == "compressor_dict":
        comp = {"name": "blosc", "configuration": {"cname": "lz4", "clevel": 2, "shuffle": "shuffle"}}
        return cubed.Spec(work_dir=scratch + "/d", zarr_compressor=comp, **base), cfg
    if name == "reserved":
        return cubed.Spec(work_dir=scratch + "/d", allowed_mem="2GB", reserved_mem="10MB"), cfg
    if name == "executor_in_spec":
        return cubed.Spec(work_dir=scratch + "/d", executor=executor, **base), cfg
    if name == "bigger_allowed":
        return cubed.Spec(work_dir=scratch + "/d", allowed_mem="4GB", reserved_mem="100MB"), cfg
    raise ValueError(name)


def execute(case, sched=None):
    import cubed

    tape = Tape(case["sched_seed"]) if sched is None else Tape(replay=sched)
    sim = Sim(tape, case.get("sim"))
    prog = case["prog"]
    TIGHT[0] = case.get("tight")
    outcomes = []
    scratch = tempfile.mkdtemp(prefix="verif-c19-")
    total_ops = 0
    try:
        with activated(sim), H.quiet(), H.single_job_labels(sim):
            for vi, vname in enumerate(case["variants"]):
                H.reset_globals(case.get("py_seed", 0), keep_stores=vi > 0)
                for s in sim.stores:
                    pass
                src = simstore.SimStore(name="src-" + vname)
                sim.attach_store(src)
                st = H.ExecState()
                executor = H.make_executor(sim, case["exec"], st)
                out = dict(variant=vname, declines=[], phase=None, exc=None, results=None, where=None)
                try:
                    spec, cfg = make_variant_spec(vname, scratch, sim, executor)
                except Exception as e:  # noqa: BLE001
                    out.update(phase="spec", exc=type(e).__name__, msg=str(e)[:200])
                    outcomes.append(out)
                    continue
                with cfg:
                    try:
                        built = G.build(prog, spec, src)
                    except Exception as e:  # noqa: BLE001
                        out.update(phase="build", exc=type(e).__name__, msg=str(e)[:200], where=PR.exc_where(e))
                        outcomes.append(out)
                        continue
                    out["declines"] = [(d.step_index, type(d.exc).__name__) for d in built.declines]
                    out["decline_msgs"] = [str(d.exc)[:160] for d in built.declines]
                    req = [o for o in prog["outputs"] if built.values[o] is not None]
                    arrays = [built.values[o] for o in req]
                    out["requested"] = req
                    if arrays:
                        ev0 = len(sim.events)
                        cb = H.make_callback(sim)
                        try:
                            kw = {} if vname == "executor_in_spec" else dict(executor=executor)
                            res = cubed.compute(*arrays, callbacks=[cb], **kw)
                            out["results"] = [np.asarray(r) for r in res]
                        except (H.SimHang, H.SimStepLimit) as e:
                            out.update(phase="execute", exc=type(e).__name__, msg=str(e)[:200])
                        except Exception as e:  # noqa: BLE001
                            out.update(phase="execute" if st.entered else "plan", exc=type(e).__name__,
                                       msg=str(e)[:200], where=PR.exc_where(e))
                        total_ops += sum(1 for e in sim.events[ev0:] if e[2] == "cb_op_start")
                outcomes.append(out)
    finally:
        shutil.rmtree(scratch, ignore_errors=True)
    violations = []
    shadow = G.shadow_of(prog)
    base = outcomes[0]
    for o in outcomes[1:]:
        if o["declines"] != base["declines"]:
            diff = [x for x in o["declines"] if x not in base["declines"]] + [x for x in base["declines"] if x not in o["declines"]]
            step = diff[0][0] if diff else -1
            opn = prog["steps"][step]["op"] if step >= 0 else "?"
            violations.append(dict(cls="acceptance_differs_at_build",
                                   msg=f"{base['variant']} declines {base['declines']} {base.get('decline_msgs')} but {o['variant']} declines {o['declines']} {o.get('decline_msgs')}",
                                   op=opn))
            continue
        if (o["phase"], o["exc"]) != (base["phase"], base["exc"]):
            violations.append(dict(cls="acceptance_differs_at_compute",
                                   msg=f"{base['variant']}: {base['phase']}/{base['exc']} {base.get('msg')} vs {o['variant']}: {o['phase']}/{o['exc']} {o.get('msg')}"))
            continue
        if o["results"] is not None and base["results"] is not None:
            for vid, r0, r1 in zip(base["requested"], base["results"], o["results"]):
                if shadow.random[vid]:
                    continue
                d = G.compare(r1, r0, exact=shadow.exact[vid], lowprec=shadow.lowprec[vid])
                if d is not None:
                    violations.append(dict(cls="values_differ_between_configurations",
                                           msg=f"value {vid}: {base['variant']} vs {o['variant']}: {d}"))
    for o in outcomes:
        if o["results"] is not None:
            for vid, r in zip(o["requested"], o["results"]):
                if shadow.random[vid]:
                    continue
                d = G.compare(r, shadow.values[vid], exact=shadow.exact[vid], lowprec=shadow.lowprec[vid])
                if d is not None:
                    violations.append(dict(cls="wrong_value", msg=f"{o['variant']} value {vid}: {d}"))
                    break
    accepted = sum(1 for o in outcomes if o["results"] is not None)
    counters = {"variants_run": len(outcomes), "variants_accepted": accepted, "ops_executed": total_ops,
                "tight_budget_runs": int(bool(case.get("tight"))),
                "tight_budget_refusals": int(bool(case.get("tight")) and any(o["phase"] in ("plan", "build") or o["declines"] for o in outcomes))}
    for o in outcomes:
        counters["variant_" + o["variant"]] = 1
    for o in PR.ops_used(prog):
        counters["op_" + o] = 1
    from sim.core import events_digest

    dg = events_digest(sim, extra=([(o["variant"], o["declines"], o["phase"], o["exc"]) for o in outcomes],
                                   [[(r.shape, str(r.dtype), r.tobytes()[:2048]) for r in o["results"]] if o["results"] is not None else None for o in outcomes]))
    return dict(violations=violations, violation=violations[0] if violations else None, digest=dg,
                sig=sig_of(prog, case["variants"], dg), nontrivial=accepted >= 2 and total_ops >= 1,
                counters=counters, vtime=sim.now, tape=list(tape.record),
                outcome=dict(outcomes=[(o["variant"], o["phase"], o["exc"]) for o in outcomes]))


def shrink(case):
    import copy

    yield from c01.shrink(case)
    if len(case["variants"]) > 2:
        for v in case["variants"][1:]:
            c = copy.deepcopy(case)
            c["variants"] = [x for x in case["variants"] if x != v]
            yield c


def known(case, violation):
    from checks import findings

    return findings.match(ID, case, violation)
