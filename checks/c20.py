"""C20 - serialized arrays compute the same and are never confused with other arrays.

The "nodes" are interpreters with their own name counters.  A child interpreter
(fresh process, counters at zero or a few) builds a generated program under a
work_dir-based Spec and cloudpickles chosen lazy arrays; the parent, which has
already created a seeded number of arrays (so generated names collide or not),
unpickles them and (i) computes them alone, (ii) combines them with locally
built arrays - as left or right operand, with disjoint ancestry and with the
same program rebuilt locally - and computes under the simulator; the
same-process round trip is a third variant.  Children run one at a time and are
pure functions of their case, so a history is replayable.  Oracle: NumPy shadow.
"""
from __future__ import annotations

import copy
import json
import os
import pickle
import shutil
import subprocess
import tempfile

import numpy as np

from checks import c01
from checks import progrun as PR
from checks.common import PY, VERIF, sig_of
from gen import programs as G
from sim import harness as H
from sim.core import Sim, activated, events_digest
from sim.tape import Tape

ID = "C20"
LEVEL = "exploration"
RULE = (
    "each run = one two-interpreter history: a generated program built in a freshly spawned child interpreter "
    "(0-3 arrays created before it), 1-2 of its lazy arrays shipped with cloudpickle; the parent has created a "
    "seeded number of arrays (0-12, or hundreds in the collision-avoiding majority of runs), then computes the "
    "shipped arrays alone, as left and right operand of local arrays with disjoint ancestry, combined with the same "
    "program rebuilt locally, and after a same-process cloudpickle round trip; simulator executors, seeded "
    "schedules. Non-trivial = >= 1 shipped array computed alone and >= 1 combination computed; distinct = distinct "
    "(history, digest)."
)
ASSUMPTIONS = c01.ASSUMPTIONS + [
    "intermediate data of shipped arrays lives in a scratch work_dir on the local filesystem shared by both interpreters",
    "the child interpreter is a real process started by the harness; it only builds (never computes)",
]
COMPONENTS = dict(c01.COMPONENTS)
COMPONENTS["real"] = COMPONENTS["real"] + ["a real child Python interpreter per history (build + cloudpickle only)",
                                           "local filesystem store under a scratch work_dir"]


def budget(tier):
    if tier == "quick":
        return dict(runs=160, minutes=None, chunk=5, chunk_wall=1500, shrink_budget=40, shrink_wall=300.0)
    return dict(runs=None, minutes=20.0, chunk=5, chunk_wall=1800, shrink_budget=60, shrink_wall=600.0)


def generate(tp: Tape, tier: str):
    prog = G.generate_program(tp, max_steps=6 if tier == "quick" else 10, min_steps=2, max_extent=8,
                              profile=tp.choice(["general", "elemwise", "reduce"]), allow_zero=False,
                              dtypes=["int64", "float64"], srcs=("asarray", "from_array"),
                              exclude_tags=("qr", "groupby"), exclude_ops=("take", "create", "searchsorted"),
                              max_outputs=2)
    sh = G.shadow_of(prog)
    n_in = len(prog["inputs"])
    cands = [i for i in range(n_in, len(sh.values)) if sh.values[i].ndim >= 1 and sh.values[i].size > 0
             and sh.values[i].dtype.kind in "iuf"] or [len(sh.values) - 1]
    ship = sorted({tp.choice(cands) for _ in range(tp.randint(1, 2))})
    raw = tp.coin(1, 6)
    case = dict(kind="xproc", prog=prog, ship=ship, raw=raw, local_first=tp.coin(1, 2),
                exact_twin=bool(raw and tp.coin(1, 2)),
                child_pre=tp.choice([0, 0, 1, 3]),
                parent_pre=tp.randint(0, 12) if raw else tp.choice([300, 500, 800]),
                local_seed=tp.randint(0, 10**6),
                # receiver's own early history (built while its counters are still in the sender's range, never
                # combined with the shipped array) and how the later local operands are created
                early_local=tp.choice([0, 0, 1, 3]), local_src=tp.choice(["asarray", "from_array", "from_array"]),
                exec=H.exec_cfg_from_tape(tp, kinds=("single", "threads")), sim=H.sim_cfg_from_tape(tp),
                opt=tp.choice([dict(kind="default"), dict(kind="off")]), allowed_mem=200_000_000,
                py_seed=tp.randint(0, 10**6), sched_seed=tp.randint(0, 2**62))
    return case


def run_child(case, scratch):
    cf_ = os.path.join(scratch, "case.json")
    of_ = os.path.join(scratch, "out.pkl")
    with open(cf_, "w") as f:
        json.dump(dict(prog=case["prog"], ship=case["ship"], work_dir=os.path.join(scratch, "work"),
                       allowed_mem=case["allowed_mem"], child_pre=case["child_pre"], py_seed=case["py_seed"]), f)
    env = dict(os.environ, PYTHONHASHSEED="0", PYTHONDONTWRITEBYTECODE="1")
    p = subprocess.run([PY, os.path.join(VERIF, "tools", "c20_child.py"), cf_, of_], capture_output=True, text=True,
                       timeout=300, env=env)
    if p.returncode != 0 or not os.path.exists(of_):
        raise RuntimeError(f"child interpreter failed: {p.stderr[-800:]}")
    with open(of_, "rb") as f:
        return pickle.load(f)


def execute(case, sched=None):
    import cloudpickle
    import cubed
    import cubed.array_api as xp

    tape = Tape(case["sched_seed"]) if sched is None else Tape(replay=sched)
    sim = Sim(tape, case.get("sim"))
    prog = case["prog"]
    shadow = G.shadow_of(prog)
    violations = []
    counters = {"alone": 0, "combos": 0, "roundtrips": 0}
    scratch = tempfile.mkdtemp(prefix="verif-c20-")
    try:
        shipped = run_child(case, scratch)
        with activated(sim), H.quiet(), H.single_job_labels(sim):
            H.reset_globals(case.get("py_seed", 0))
            spec = cubed.Spec(work_dir=os.path.join(scratch, "work"), allowed_mem=case["allowed_mem"], reserved_mem=0)
            early = []
            if case.get("early_local") and not case.get("exact_twin"):
                # unrelated early arrays of the receiver, on the block grids the later local operands will use
                H.set_counters(0)
                for vid in case["ship"]:
                    w = shadow.values[vid]
                    if w.ndim >= 1 and w.size and w.dtype.kind in "iuf":
                        for k in range(case["early_local"]):
                            early.append(cubed.from_array(np.zeros(w.shape, w.dtype) + k,
                                                          chunks=tuple(max(1, s // 2) for s in w.shape), spec=spec))
                counters["early_local_arrays"] = len(early)
            H.set_counters(0 if case.get("exact_twin") else case["parent_pre"])
            twin = None
            if case.get("exact_twin"):
                # the receiver has built exactly what the sender built: every generated name coincides
                for _ in range(case.get("child_pre", 0)):
                    xp.asarray([0.0], spec=spec)
                try:
                    twin = G.build(prog, spec, None)
                except Exception:  # noqa: BLE001
                    twin = None
            st = H.ExecState()

            def comp(arrs):
                ex = H.make_executor(sim, case["exec"], st)
                og, of = PR.make_optimize_function(case.get("opt"))
                return cubed.compute(*arrs, executor=ex, optimize_graph=og, optimize_function=of)

            def judge(label, got, want, vid, collide, other=None):
                ex = shadow.exact[vid] and (other is None or shadow.exact[other])
                lp = shadow.lowprec[vid] or (other is not None and shadow.lowprec[other])
                d = G.compare(np.asarray(got), want, exact=ex, lowprec=lp)
                if d is not None:
                    violations.append(dict(cls="wrong_value_" + label.split(":")[0],
                                           msg=f"{label} (value {vid}): {d}", name_collision=collide))

            rng = np.random.RandomState(case["local_seed"] % (2**31))
            # local arrays first: their names depend on the parent's counters
            locals_ = {}
            for vid in case["ship"]:
                if shipped["arrays"].get(vid) is None or shadow.values[vid].size == 0 or shadow.values[vid].dtype.kind not in "iuf":
                    continue
                want = shadow.values[vid]
                lnp = rng.randint(-3, 6, size=want.shape).astype(want.dtype)
                mk_local = cubed.from_array if case.get("local_src") == "from_array" else xp.asarray
                lcu = mk_local(lnp, chunks=tuple(max(1, s // 2) for s in want.shape) or (), spec=spec)
                lder = lcu * 2 if want.dtype.kind != "b" else lcu
                locals_[vid] = (lnp, lcu, lder)
            if twin is None:
                try:
                    twin = G.build(prog, spec, None)
                except Exception:  # noqa: BLE001
                    twin = None
            for vid in case["ship"]:
                blob = shipped["arrays"].get(vid)
                if blob is None or shadow.random[vid] or shadow.values[vid].size == 0 or shadow.values[vid].dtype.kind not in "iuf":
                    continue
                remote = cloudpickle.loads(blob)
                want = shadow.values[vid]
                lnp, lcu, lder = locals_[vid]
                local_names = set(lder._plan.dag.nodes) | (set(twin.values[vid]._plan.dag.nodes) if twin and twin.values[vid] is not None else set())
                collide = bool(set(remote._plan.dag.nodes) & local_names)
                if collide and not case.get("raw"):
                    # with the receiver's counters moved far beyond the sender's range no local operand can carry
                    # a name of the shipped plan: a collision here is not the recorded name-collision finding
                    counters["unexpected_collisions"] = counters.get("unexpected_collisions", 0) + 1
                    collide = False
                try:
                    if case.get("local_first"):
                        # the receiving process has already planned / computed its own (possibly same-named) arrays
                        (r0,) = comp([lder])
                        judge("local: local array computed before the shipped one", r0, lnp * 2, vid, False)
                        if twin is not None and twin.values[vid] is not None:
                            (r0,) = comp([twin.values[vid]])
                            judge("local: locally rebuilt twin computed before the shipped one", r0, want, vid, False)
                        counters["local_first_runs"] = 1
                    try:
                        (r,) = comp([remote])
                    except (H.SimHang, H.SimStepLimit):
                        raise
                    except Exception as e:  # noqa: BLE001 - computing the shipped array on its own must work
                        violations.append(dict(cls=f"alone_failed:{type(e).__name__}",
                                               msg=f"shipped array (value {vid}) computed alone: {type(e).__name__}: {str(e)[:200]} at {PR.exc_where(e)}",
                                               name_collision=False, exc_type=type(e).__name__))
                        continue
                    counters["alone"] += 1
                    judge("alone: shipped array computed alone", r, want, vid, False)
                    combos = [("combined: remote + local", lambda: remote + lder, want + lnp * 2),
                              ("combined: local - remote", lambda: lder - remote, lnp * 2 - want)]
                    if twin is not None and twin.values[vid] is not None:
                        combos.append(("combined: remote + locally rebuilt twin", lambda: remote + twin.values[vid], want + want))
                        other = [o for o in range(len(twin.values)) if twin.values[o] is not None and o != vid
                                 and shadow.values[o].shape == want.shape and shadow.values[o].dtype == want.dtype
                                 and not shadow.random[o]]
                        if other:
                            o = other[-1]
                            combos.append(("combined: remote * other local value", lambda o=o: remote * twin.values[o], want * shadow.values[o], o))
                    for label, mk, exp, *oth in combos:
                        try:
                            z = mk()
                        except Exception:  # noqa: BLE001 - cubed declines the combination
                            counters["combo_declined"] = counters.get("combo_declined", 0) + 1
                            continue
                        (r,) = comp([z])
                        counters["combos"] += 1
                        judge(label, r, exp, vid, collide, other=oth[0] if oth else None)
                    # same-process round trip of a local array
                    if twin is not None and twin.values[vid] is not None:
                        rt = cloudpickle.loads(cloudpickle.dumps(twin.values[vid]))
                        (r,) = comp([rt + lder])
                        counters["roundtrips"] += 1
                        judge("roundtrip: same-process unpickled + local", r, want + lnp * 2, vid, False)
                        # ... and with the very array it is a copy of (shared ancestry through another copy of the
                        # same nodes): accepted without the round trip (x + x), so it must be accepted with it
                        try:
                            zz = rt + twin.values[vid]
                        except Exception as e:  # noqa: BLE001
                            violations.append(dict(cls=f"roundtrip_combination_refused:{type(e).__name__}",
                                                   msg=f"value {vid}: unpickled copy + its original refused while building: {type(e).__name__}: {str(e)[:160]}",
                                                   name_collision=False))
                        else:
                            (r,) = comp([zz])
                            counters["roundtrips_with_original"] = counters.get("roundtrips_with_original", 0) + 1
                            judge("roundtrip: same-process unpickled + its original", r, want + want, vid, False)
                    counters["name_collisions"] = counters.get("name_collisions", 0) + int(collide)
                except (H.SimHang, H.SimStepLimit) as e:
                    violations.append(dict(cls="hang", msg=str(e)))
                except Exception as e:  # noqa: BLE001
                    violations.append(dict(cls=f"compute_failed:{type(e).__name__}",
                                           msg=f"value {vid}: {type(e).__name__}: {str(e)[:200]} at {PR.exc_where(e)}",
                                           name_collision=collide, exc_type=type(e).__name__))
    finally:
        shutil.rmtree(scratch, ignore_errors=True)
    for o in PR.ops_used(prog):
        counters["op_" + o] = 1
    counters["raw_histories"] = int(bool(case.get("raw")))
    dg = events_digest(sim, extra=(counters["alone"], counters["combos"], [v["cls"] for v in violations]))
    return dict(violations=violations, violation=violations[0] if violations else None, digest=dg,
                sig=sig_of(prog, case["ship"], case["parent_pre"], dg),
                nontrivial=counters["alone"] >= 1 and counters["combos"] >= 1, counters=counters, vtime=sim.now,
                tape=list(tape.record), outcome=dict(alone=counters["alone"], combos=counters["combos"]))


def shrink(case):
    keep = list(case["ship"])
    base = copy.deepcopy(case)
    base["prog"]["outputs"] = keep
    for p in G.shrink_program(base["prog"]):
        if p is None or not G.valid_program(p) or len(p["outputs"]) != len(keep):
            continue
        c = copy.deepcopy(case)
        c["prog"] = p
        c["ship"] = list(p["outputs"])
        yield c
    if len(case["ship"]) > 1:
        for v in case["ship"]:
            c = copy.deepcopy(case)
            c["ship"] = [x for x in case["ship"] if x != v]
            yield c
    for key, val in (("child_pre", 0), ("exec", dict(kind="single")), ("opt", dict(kind="off"))):
        if case.get(key) != val:
            c = copy.deepcopy(case)
            c[key] = val
            yield c


def known(case, violation):
    from checks import findings

    return findings.match(ID, case, violation)
