"""Batch driver shared by all checks: seeds, worker processes, replay,
minimisation, known findings, evidence.

A check module provides

    ID, LEVEL, RULE, ASSUMPTIONS, COMPONENTS
    budget(tier) -> dict(runs=int | None, minutes=float | None, chunk=int)
    generate(tape, tier) -> case           (JSON-serialisable dict; the workload,
                                            swarm configuration, fault plan and
                                            the schedule seed)
    execute(case, sched=None) -> Result    (pure function of case and schedule
                                            tape; ``sched`` is a recorded tape
                                            list for replay/shrinking)
    shrink(case) -> iterable of smaller cases        (optional)
    known(case, violation) -> finding id | None      (optional; via matchers)

``Result`` is a dict: violation (None | {cls, msg, ...}), digest, sig,
nontrivial, counters, vtime, tape (recorded schedule draws).
"""
from __future__ import annotations

import concurrent.futures as cf
import faulthandler
import hashlib
import importlib
import json
import multiprocessing
import os
import subprocess
import sys
import time
import traceback

from sim.tape import Tape, derive_seed

VERIF = os.path.dirname(os.path.dirname(os.path.abspath(__file__)))
# scratch runs (seeded-change trials against a worktree on PYTHONPATH, background soaks) redirect their output
EVIDENCE_DIR = os.environ.get("VERIF_EVIDENCE_DIR") or os.path.join(VERIF, "evidence")
REPLAY_DIR = os.environ.get("VERIF_REPLAY_DIR") or os.path.join(VERIF, "replays")
KNOWN_FILE = os.path.join(VERIF, "known_findings.json")
PY = "/venv/bin/python"

EXIT_OK, EXIT_VIOLATION, EXIT_HARNESS = 0, 1, 2


def load_known():
    try:
        with open(KNOWN_FILE) as f:
            return json.load(f)
    except FileNotFoundError:
        return {"findings": [], "fixed": []}


def known_for(prop):
    return [k for k in load_known().get("findings", []) if k["property"] == prop]


def load_check(name: str):
    return importlib.import_module(f"checks.{name.lower()}")


class HarnessError(Exception):
    pass


# ---------------------------------------------------------------------------
# one run
# ---------------------------------------------------------------------------

def run_one(mod, verif_seed: int, index: int, tier: str):
    seed = derive_seed(mod.ID, verif_seed, index)
    tape = Tape(seed)
    case = mod.generate(tape, tier)
    case["_seed"] = seed
    case["_index"] = index
    res = mod.execute(case)
    return case, res


def _worker_batch(args):
    """Runs in a pool worker: every chunk is executed in a freshly forked child, so that each
    chunk starts from the pristine state of the (never-executing) parent and a violation can be
    reproduced from (chunk prefix, index) alone even if the code under test keeps process-global
    state across runs."""
    import pickle

    r, w = os.pipe()
    pid = os.fork()
    if pid == 0:
        code = 0
        try:
            os.close(r)
            out = _run_chunk(args)
            data = pickle.dumps(out)
            with os.fdopen(w, "wb") as f:
                f.write(data)
        except BaseException:  # noqa: BLE001
            traceback.print_exc()
            code = 3
        finally:
            os._exit(code)
    os.close(w)
    with os.fdopen(r, "rb") as f:
        data = f.read()
    _, status = os.waitpid(pid, 0)
    if not data:
        if os.WIFSIGNALED(status) and not args[5:]:
            # the interpreter died in native code (seen once: SIGSEGV): run the chunk again, one index per child,
            # so that at most the offending run is lost - and counted
            out = None
            for i in args[2]:
                try:
                    o = _worker_batch(args[:2] + ([i],) + args[3:5] + ("retry",))
                except RuntimeError:
                    o = dict(n=0, nontrivial=0, sigs=set(), counters={"runs_lost_child_crashed": 1}, vtime=0.0,
                             violations=[], samples=[], harness=[], declines=0)
                if out is None:
                    out = o
                else:
                    out["n"] += o["n"]
                    out["nontrivial"] += o["nontrivial"]
                    out["sigs"] |= o["sigs"]
                    out["vtime"] += o["vtime"]
                    for k, v in o["counters"].items():
                        out["counters"][k] = out["counters"].get(k, 0) + v
                    out["violations"].extend(o["violations"])
                    out["harness"].extend(o["harness"])
            return out
        raise RuntimeError(f"chunk {args[2][:1]}.. child exited with status {status} and no result")
    return pickle.loads(data)


def _run_chunk(args):
    name, verif_seed, indices, tier, wall_cap = args[:5]
    faulthandler.enable()
    faulthandler.dump_traceback_later(wall_cap, exit=True)
    import warnings

    import numpy as np

    warnings.filterwarnings("ignore")
    np.seterr(all="ignore")
    mod = load_check(name)
    out = dict(
        n=0, nontrivial=0, sigs=set(), counters={}, vtime=0.0, violations=[], samples=[],
        harness=[], declines=0,
    )
    import signal

    class _RunTooSlow(BaseException):
        pass

    def _on_alarm(signum, frame):
        # raised in the main thread at the next bytecode boundary; the chunk's child process is discarded
        # right afterwards (see below), because an interrupted Zarr/NumPy call leaves no state worth keeping
        raise _RunTooSlow()

    run_wall = int(os.environ.get("VERIF_RUN_WALL") or getattr(mod, "RUN_WALL", 240))
    try:
        signal.signal(signal.SIGALRM, _on_alarm)
    except (ValueError, OSError):
        run_wall = 0
    for idx in indices:
        try:
            if run_wall:
                signal.alarm(run_wall)
            try:
                case, res = run_one(mod, verif_seed, idx, tier)
            finally:
                if run_wall:
                    signal.alarm(0)
        except _RunTooSlow:
            # a workload that is merely expensive in real time (not a hang: hangs are virtual-time states):
            # counted, never reported as holding or as violating
            out["counters"]["runs_abandoned_wall_clock"] = out["counters"].get("runs_abandoned_wall_clock", 0) + 1
            # the rest of the chunk is handed back unexecuted: continuing in a process whose IO thread was
            # interrupted mid-call is not safe (a thorough run crashed with SIGSEGV doing exactly that)
            out["unfinished"] = [i for i in indices if i > idx]
            break
        except BaseException as e:  # noqa: BLE001
            out["harness"].append(
                dict(index=idx, error=repr(e), tb=traceback.format_exc()[-4000:])
            )
            if len(out["harness"]) > 3:
                break
            continue
        out["n"] += 1
        if res.get("nontrivial"):
            out["nontrivial"] += 1
            out["sigs"].add(res["sig"])
        for s_ in res.get("extra_sigs") or ():
            out["sigs"].add(s_)
        for k, v in res.get("counters", {}).items():
            out["counters"][k] = out["counters"].get(k, 0) + v
        out["vtime"] += res.get("vtime", 0.0)
        if len(out["samples"]) < 2 and res.get("nontrivial"):
            out["samples"].append(sample_view(case, res))
        for v in res.get("violations") or ([res["violation"]] if res.get("violation") else []):
            if len(out["violations"]) < 40:
                out["violations"].append(
                    dict(index=idx, seed=case["_seed"], case=case, violation=v,
                         digest=res["digest"], tape=res.get("tape"),
                         history=dict(check=name, verif_seed=verif_seed, tier=tier,
                                      indices=[i for i in indices if i < idx]))
                )
            out["counters"]["violating_runs"] = out["counters"].get("violating_runs", 0) + 1
            break
    faulthandler.cancel_dump_traceback_later()
    return out


def sample_view(case, res):
    c = {k: v for k, v in case.items() if not k.startswith("_")}
    s = json.dumps(c, default=str)
    if len(s) > 3000:
        c = {"truncated": s[:3000]}
    return dict(seed=case.get("_seed"), case=c, digest=res.get("digest"),
                outcome=res.get("outcome"), vtime=res.get("vtime"))


# ---------------------------------------------------------------------------
# replay files
# ---------------------------------------------------------------------------

def write_replay(prop, case, violation, digest, tape, suffix="", history=None):
    os.makedirs(REPLAY_DIR, exist_ok=True)
    path = os.path.join(REPLAY_DIR, f"{prop}-{case.get('_seed', 0)}{suffix}.json")
    with open(path, "w") as f:
        json.dump(
            dict(property=prop, violation=violation, digest=digest, case=case, tape=tape, history=history),
            f, indent=1, default=str,
        )
    return path


def replay_file(mod, path):
    with open(path) as f:
        r = json.load(f)
    h = r.get("history")
    if h and h.get("indices"):
        # the violation depends on what ran earlier in the same process: re-run that prefix first
        for i in h["indices"]:
            try:
                run_one(mod, h["verif_seed"], i, h["tier"])
            except BaseException:  # noqa: BLE001
                pass
    res = mod.execute(r["case"], sched=r.get("tape"))
    return r, res


def replay_in_fresh_interpreter(prop, path, timeout=600):
    env = dict(os.environ)
    env["PYTHONHASHSEED"] = "1"  # deliberately different from the batch's 0
    p = subprocess.run(
        [PY, os.path.join(VERIF, "checks", "main.py"), prop, "--replay", path, "--quiet"],
        capture_output=True, text=True, timeout=timeout, env=env, cwd=VERIF,
    )
    last = [ln for ln in p.stdout.splitlines() if ln.startswith("REPLAY ")]
    if not last:
        return None, p.stdout[-2000:] + p.stderr[-2000:]
    return json.loads(last[-1][len("REPLAY "):]), ""


def vclass(v):
    return v["cls"] if v else None


# ---------------------------------------------------------------------------
# minimisation
# ---------------------------------------------------------------------------

def minimise(mod, case, violation, tape, budget=300, wall=120.0):
    """Greedy shrinking: keep a candidate iff the same violation class persists."""
    target = vclass(violation)
    best_case, best_tape, best_v = case, tape, violation
    best_digest = None
    t0 = time.time()
    tried = 0
    # 1. canonical schedule (zeroed tape)
    improved = True
    while improved and tried < budget and time.time() - t0 < wall:
        improved = False
        cands = []
        if hasattr(mod, "shrink"):
            cands = mod.shrink(best_case)
        for cand in cands:
            if tried >= budget or time.time() - t0 > wall:
                break
            tried += 1
            try:
                res = mod.execute(cand)
            except BaseException:  # noqa: BLE001
                continue
            vs = res.get("violations") or ([res["violation"]] if res.get("violation") else [])
            hit = [v for v in vs if vclass(v) == target]
            if hit:
                best_case, best_tape, best_v = cand, res.get("tape"), hit[0]
                best_digest = res["digest"]
                improved = True
                break
    # 2. schedule tape: try zeroing suffixes / the whole tape
    if best_tape:
        for frac in (0.0, 0.25, 0.5, 0.75):
            if tried >= budget or time.time() - t0 > wall:
                break
            keep = int(len(best_tape) * frac)
            cand_tape = list(best_tape[:keep])
            tried += 1
            try:
                res = mod.execute(best_case, sched=cand_tape)
            except BaseException:  # noqa: BLE001
                continue
            vs = res.get("violations") or ([res["violation"]] if res.get("violation") else [])
            hit = [v for v in vs if vclass(v) == target]
            if hit:
                best_tape, best_v = res.get("tape"), hit[0]
                best_digest = res["digest"]
                break
    if hasattr(mod, "pin"):
        pinned = mod.pin(best_case, best_v)
        try:
            res = mod.execute(pinned)
            vs = res.get("violations") or []
            hit = [v for v in vs if vclass(v) == target]
            if hit:
                best_case, best_tape, best_v, best_digest = pinned, res.get("tape"), hit[0], res["digest"]
        except BaseException:  # noqa: BLE001
            pass
    if best_digest is None:
        res = mod.execute(best_case, sched=best_tape)
        best_digest = res["digest"]
        best_tape = res.get("tape")
    return best_case, best_tape, best_v, best_digest, tried


# ---------------------------------------------------------------------------
# the batch
# ---------------------------------------------------------------------------

def main_check(name: str, tier: str, verif_seed: int, runs=None, minutes=None, procs=None,
               quiet=False):
    mod = load_check(name)
    prop = mod.ID
    t0 = time.time()
    b = mod.budget(tier)
    if runs is not None:
        b["runs"] = runs
        b["minutes"] = None
    if minutes is not None:
        b["minutes"] = minutes
        b["runs"] = None
    chunk = b.get("chunk", 50)
    procs = procs or int(os.environ.get("VERIF_PROCS", "0")) or min(16, os.cpu_count() or 1)
    wall_cap = int(b.get("chunk_wall", 900))

    ctx = multiprocessing.get_context("fork")
    agg = dict(n=0, nontrivial=0, sigs=set(), counters={}, vtime=0.0, violations=[], samples=[],
               harness=[])
    next_index = 0
    deadline = t0 + b["minutes"] * 60 if b.get("minutes") else None
    total_runs = b.get("runs")

    def more():
        if total_runs is not None:
            return next_index < total_runs
        return time.time() < deadline

    broken = None
    with cf.ProcessPoolExecutor(max_workers=procs, mp_context=ctx) as ex:
        futs = set()
        while True:
            while len(futs) < procs * 2 and more():
                n = chunk if total_runs is None else min(chunk, total_runs - next_index)
                idxs = list(range(next_index, next_index + n))
                next_index += n
                futs.add(ex.submit(_worker_batch, (name, verif_seed, idxs, tier, wall_cap)))
            if not futs:
                break
            done, futs = cf.wait(futs, return_when=cf.FIRST_COMPLETED, timeout=wall_cap + 60)
            if not done:
                broken = "worker timeout"
                break
            for f in done:
                try:
                    out = f.result()
                except BaseException as e:  # noqa: BLE001
                    broken = f"worker died: {e!r}"
                    continue
                if out.get("unfinished"):
                    futs.add(ex.submit(_worker_batch, (name, verif_seed, out["unfinished"], tier, wall_cap)))
                agg["n"] += out["n"]
                agg["nontrivial"] += out["nontrivial"]
                agg["sigs"] |= out["sigs"]
                agg["vtime"] += out["vtime"]
                for k, v in out["counters"].items():
                    agg["counters"][k] = agg["counters"].get(k, 0) + v
                agg["violations"].extend(out["violations"])
                agg["harness"].extend(out["harness"])
                if len(agg["samples"]) < 3:
                    agg["samples"].extend(out["samples"][: 3 - len(agg["samples"])])
            if broken:
                break
            if len(agg["violations"]) > 400 or len(agg["harness"]) > 10:
                # enough to report; stop generating more
                total_runs = next_index
                deadline = 0
    if broken:
        for f in futs:
            f.cancel()

    # ---- classify violations ------------------------------------------------
    exit_code = EXIT_OK
    lines = []
    known_hits: dict[str, dict] = {}
    unknown: dict[str, list] = {}
    for v in agg["violations"]:
        kid = mod.known(v["case"], v["violation"]) if hasattr(mod, "known") else None
        if kid is not None:
            known_hits.setdefault(kid, v)
            agg["counters"]["known_finding_runs"] = agg["counters"].get("known_finding_runs", 0) + 1
        else:
            unknown.setdefault(vclass(v["violation"]), []).append(v)

    reported = []
    for cls, vs in sorted(unknown.items()):
        v = min(vs, key=lambda x: len(json.dumps(x["case"], default=str)))
        try:
            case, tape, viol, digest, tried = minimise(mod, v["case"], v["violation"], v["tape"],
                                                       budget=b.get("shrink_budget", 200),
                                                       wall=b.get("shrink_wall", 120.0))
        except BaseException as e:  # noqa: BLE001
            case, tape, viol, digest, tried = v["case"], v["tape"], v["violation"], v["digest"], 0
        # after minimisation the case may have turned into a known finding
        kid = mod.known(case, viol) if hasattr(mod, "known") else None
        if kid is not None:
            known_hits.setdefault(kid, dict(case=case, violation=viol, digest=digest, tape=tape,
                                            seed=case.get("_seed")))
            continue
        path = write_replay(prop, case, viol, digest, tape)
        rep, err = replay_in_fresh_interpreter(prop, path)
        note = ""
        if rep is None or rep.get("cls") != vclass(viol):
            # fall back to the unminimised case, then to the case preceded by the runs that
            # shared its process (a violation that needs process-global state built up earlier)
            path = write_replay(prop, v["case"], v["violation"], v["digest"], v["tape"], suffix="-raw")
            rep, err2 = replay_in_fresh_interpreter(prop, path)
            viol, digest = v["violation"], v["digest"]
            if rep is None or rep.get("cls") != vclass(viol):
                path = write_replay(prop, v["case"], v["violation"], v["digest"], v["tape"],
                                    suffix="-history", history=v.get("history"))
                rep, err3 = replay_in_fresh_interpreter(prop, path, timeout=1800)
                if rep is None or rep.get("cls") != vclass(viol):
                    lines.append(
                        f"HARNESS-ERROR property={prop} violation class {cls!r} did not replay "
                        f"(replay={path}; got {rep or err3 or err2 or err})"
                    )
                    exit_code = max(exit_code, EXIT_HARNESS)
                    continue
                note = " [reproduces only after the runs that preceded it in the same process: depends on process-global state]"
        if rep.get("digest") != digest:
            note += " [same violation class on replay but a different event-log digest: the run depends on state outside the case]"
        lines.append(f"VIOLATION property={prop} replay={path}")
        if note:
            lines.append("  note:" + note)
        lines.append(f"  class={vclass(viol)} msg={viol.get('msg', '')[:300]}")
        lines.append(f"  ({len(vs)} violating runs of this class; minimised in {tried} re-executions)")
        reported.append(dict(cls=vclass(viol), replay=path, runs=len(vs)))
        exit_code = max(exit_code, EXIT_VIOLATION)

    kf = {k["id"]: k for k in known_for(prop)}
    for kid, v in sorted(known_hits.items()):
        what = kf.get(kid, {}).get("what", kid)
        lines.append(f"KNOWN-FINDING: property={prop} {kid}: {what}")

    if agg["harness"]:
        h = agg["harness"][0]
        lines.append(f"HARNESS-ERROR property={prop} index={h['index']} {h['error']}")
        lines.append(h["tb"])
        exit_code = EXIT_HARNESS
    if broken:
        lines.append(f"HARNESS-ERROR property={prop} {broken}")
        exit_code = EXIT_HARNESS
    if agg["n"] == 0:
        lines.append(f"HARNESS-ERROR property={prop} no runs completed")
        exit_code = EXIT_HARNESS

    wall = time.time() - t0
    # ---- evidence -------------------------------------------------------------
    ev = dict(
        property_id=prop,
        tier=tier,
        seed=int(verif_seed),
        level=mod.LEVEL,
        wall_s=round(wall, 2),
        violations=len(reported),
        assumptions=list(mod.ASSUMPTIONS),
        coverage=dict(
            evaluations=agg["n"],
            distinct_nontrivial=len(agg["sigs"]),
            rule=mod.RULE,
            samples=agg["samples"] or [dict(note="no nontrivial sample recorded")],
            nontrivial_runs=agg["nontrivial"],
            runs_per_hour=round(agg["n"] / wall * 3600) if wall > 0 else 0,
            worker_processes=procs,
            simulated_seconds=round(agg["vtime"], 2),
            counters=dict(sorted(agg["counters"].items())),
            known_findings_matched=sorted(known_hits),
            unexplained_violation_classes=[r["cls"] for r in reported],
            components=mod.COMPONENTS,
            technique="deterministic simulation with fault injection (seeded search over schedules and faults)",
        ),
    )
    if hasattr(mod, "evidence_extra"):
        ev["coverage"].update(mod.evidence_extra(agg))
    if exit_code != EXIT_HARNESS:
        os.makedirs(EVIDENCE_DIR, exist_ok=True)
        with open(os.path.join(EVIDENCE_DIR, f"{prop}.json"), "w") as f:
            json.dump(ev, f, indent=1, default=str)
    for ln in lines:
        print(ln)
    if not quiet:
        print(
            f"[{prop} {tier}] runs={agg['n']} nontrivial={agg['nontrivial']} "
            f"distinct={len(agg['sigs'])} wall={wall:.1f}s exit={exit_code}"
        )
        cs = agg["counters"]
        print("  counters: " + ", ".join(f"{k}={cs[k]}" for k in sorted(cs) if not k.startswith("op_")))
    return exit_code


def main_replay(name: str, path: str, quiet=False):
    mod = load_check(name)
    r, res = replay_file(mod, path)
    vs = res.get("violations") or ([res["violation"]] if res.get("violation") else [])
    want = vclass(r.get("violation"))
    hit = [v for v in vs if vclass(v) == want] or vs
    out = dict(cls=vclass(hit[0]) if hit else None, digest=res["digest"])
    print("REPLAY " + json.dumps(out))
    if hit:
        kid = mod.known(r["case"], hit[0]) if hasattr(mod, "known") else None
        if kid is not None:
            print(f"KNOWN-FINDING: property={mod.ID} {kid}")
            return EXIT_OK
        print(f"VIOLATION property={mod.ID} replay={path}")
        if not quiet:
            print(f"  class={out['cls']} msg={hit[0].get('msg', '')[:2000]}")
        return EXIT_VIOLATION
    if not quiet:
        print("replay did not reproduce a violation")
    return EXIT_OK


def sig_of(*parts) -> str:
    return hashlib.sha1(repr(parts).encode()).hexdigest()[:16]
