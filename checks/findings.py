"""Known findings: matchers over (minimised) cases.

``known_findings.json`` (committed, never written at run time) lists genuine
defects of cubed that are recorded rather than repaired.  An entry names a
matcher defined here; a violation whose case matches prints KNOWN-FINDING and
does not fail the check, any other violation of the same property does.
"""
from __future__ import annotations

from checks.common import load_known

MATCHERS = {}


def matcher(name):
    def deco(f):
        MATCHERS[name] = f
        return f

    return deco


def match(prop, case, violation):
    for k in load_known().get("findings", []):
        if k["property"] != prop:
            continue
        m = MATCHERS.get(k["matcher"])
        if m is not None and m(case, violation):
            return k["id"]
    return None


def avoid_known(prog, tp):
    """Avoidance transform: rewrite constructs that hit a known finding so that
    it does not mask other defects (the raw construct is kept in a small fixed
    fraction of runs by the caller)."""
    return prog
