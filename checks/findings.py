"""Known findings: matchers over (minimised) cases.

``known_findings.json`` (committed, never written at run time) lists genuine
defects of cubed that are recorded rather than repaired.  An entry names a
matcher defined here; a violation whose case matches prints KNOWN-FINDING and
does not fail the check, any other violation of the same property does.
"""
from __future__ import annotations

from checks.common import load_known

MATCHERS = {}


def matcher(name):
    def deco(f):
        MATCHERS[name] = f
        return f

    return deco


def match(prop, case, violation):
    for k in load_known().get("findings", []):
        if k["property"] != prop:
            continue
        m = MATCHERS.get(k["matcher"])
        if m is not None and m(case, violation):
            return k["id"]
    return None


def avoid_known(prog, tp):
    """Avoidance transform: rewrite constructs that hit a known finding so that
    it does not mask other defects (the raw construct is kept in a small fixed
    fraction of runs by the caller)."""
    return prog


@matcher("legacy_simple_optimizer_iterator_keyfunc")
def _legacy_simple(case, v):
    """simple_optimize_dag fuses a successor whose key function yields a list/iterator of
    keys (reductions, selections); the fused key function then fails inside a task."""
    opt = case.get("opt") or {}
    opt2 = case.get("opt2") or {}
    if "simple" not in (opt.get("kind"), opt2.get("kind")):
        return False
    return v.get("exc_type") == "AttributeError" and "has no attribute 'coords'" in v.get("msg", "")


def _zero_size_operand_ops(case):
    from gen import programs as G

    try:
        sh = G.shadow_of(case["prog"])
    except Exception:  # noqa: BLE001
        return set()
    return {st["op"] for st in case["prog"]["steps"] if any(sh.values[a].size == 0 for a in st["args"])}


@matcher("zero_length_dim_zerodivision")
def _zero_len(case, v):
    """An operation applied to an array with a zero-length dimension lets a chunk size of 0
    reach normalize_chunks, which divides by it."""
    if v.get("exc_type") != "ZeroDivisionError" or "vendor/dask/array/core.py" not in (v.get("where") or ""):
        return False
    return v.get("op") in _zero_size_operand_ops(case)


@matcher("zero_length_dim_multichunk_misaligned")
def _zero_len_exec(case, v):
    """Multi-input operations on zero-size arrays that are chunked differently along a
    non-empty dimension are not brought to common chunks; tasks then fail on misaligned blocks."""
    if not v.get("cls", "").startswith("failed_after_execution_started"):
        return False
    if v.get("exc_type") not in ("IndexError", "ValueError"):
        return False
    ops = _zero_size_operand_ops(case)
    multi = {"stack", "stack3", "concat", "concat3", "where", "matmul", "tensordot", "vecdot", "broadcast_arrays"}
    from gen.programs import OPS

    return any(o in multi or (o in OPS and OPS[o].arity >= 2) for o in ops)


@matcher("store_repeated_lazy_source")
def _store_repeated(case, v):
    """Several (source, target) pairs of one store() call whose sources are the same lazy
    array, aliases of it, or one an ancestor of the other (runtime fact recorded by the check
    from the real cubed arrays: identity / name in the other's plan)."""
    if v.get("cls") not in ("target_missing", "target_content_wrong"):
        return False
    return bool(v.get("shared_ancestry")) and v.get("n_pairs", 1) > 1


@matcher("zero_length_dim_block_shape")
def _zero_len_c12(case, v):
    if v.get("cls") != "block_shape_mismatch":
        return False
    from gen.programs import OPS

    ops = _zero_size_operand_ops(case)
    return any(o in OPS and OPS[o].arity >= 2 for o in ops)


@matcher("store_repeated_lazy_source_c05")
def _store_repeated_c05(case, v):
    return (v.get("cls") in ("wrong_value_under_interleaving", "output_chunks_not_covered")
            and bool(v.get("shared_ancestry")) and v.get("n_pairs", 1) > 1)


@matcher("derived_before_ancestor_stored")
def _derived_before_store(case, v):
    """y = f(x) derived before to_zarr(x)/store(x) of the not-yet-computed x: y later reads x
    from its old location (runtime fact recorded by the check from the real plan DAGs)."""
    return (v.get("cls") in ("value_changed_by_history", "earlier_target_changed", "earlier_target_unreadable")
            and bool(v.get("ancestor_stored_after_derivation")))


@matcher("cross_process_name_collision")
def _xproc_collision(case, v):
    """An array built in another interpreter shares generated node names (array-00N / op-00N) with
    arrays built locally; merging the plans by name confuses them (runtime fact: the check records
    whether the unpickled array's DAG and the local arrays' DAGs share a node name)."""
    return bool(v.get("name_collision")) and (v.get("cls", "").startswith("wrong_value_combined")
                                              or v.get("cls", "").startswith("compute_failed"))


@matcher("mem_strided_or_array_index")
def _mem_index(case, v):
    """Indexing with a non-unit / negative slice step or an integer array under-projects memory."""
    if v.get("cls") != "task_exceeds_projected_mem" or v.get("func") != "__getitem__":
        return False
    for st in case["prog"]["steps"]:
        if st["op"] == "getitem":
            for e in st["p"]["idx"]:
                if e[0] in ("a", "m") or (e[0] == "s" and e[3] not in (None, 1)):
                    return True
    return False


@matcher("mem_fused_arg_reduction")
def _mem_argred(case, v):
    """argmax/argmin fused with its elementwise predecessors under-projects memory."""
    if v.get("cls") != "task_exceeds_projected_mem" or v.get("func") not in ("argmin", "argmax"):
        return False
    return (case.get("opt") or {}).get("kind") != "off" and any(st["op"] == "argred" for st in case["prog"]["steps"])


@matcher("mem_fused_roll")
def _mem_roll(case, v):
    if v.get("cls") != "task_exceeds_projected_mem" or v.get("func") != "roll":
        return False
    return (case.get("opt") or {}).get("kind") != "off" and any(st["op"] == "roll" for st in case["prog"]["steps"])


@matcher("mem_fused_op_underprojection")
def _mem_fused(case, v):
    """A *fused* operation (optimizer on) exceeds its projected memory: the projection of a fused operation
    is max(own, peak of predecessors) although predecessor outputs stay alive while the operation itself runs."""
    return (v.get("cls") == "task_exceeds_projected_mem" and bool(v.get("fused"))
            and (case.get("opt") or {}).get("kind") != "off")


@matcher("mem_roll_unaligned_concat")
def _mem_roll_unfused(case, v):
    """roll(): the concat of the two shifted slices assembles every output block from up to two input blocks
    per rolled axis, but is projected like an aligned concat."""
    return (v.get("cls") == "task_exceeds_projected_mem" and v.get("func") == "roll" and not v.get("fused")
            and any(st["op"] == "roll" for st in case["prog"]["steps"]))


@matcher("mem_var_narrow_dtype_temporaries")
def _mem_var(case, v):
    """var/std (and nan variants) of an array narrower than float64: the first round computes (a - mean) and
    its square as float64 temporaries of full chunk size, which the projection (sized on the input dtype) misses."""
    if v.get("cls") != "task_exceeds_projected_mem" or v.get("fused"):
        return False
    if v.get("func") not in ("var", "std", "nanvar", "nanstd"):
        return False
    import numpy as np

    return any(np.dtype(i["dtype"]).itemsize < 8 for i in case["prog"]["inputs"])


@matcher("mem_nan_reduction_mask_temporaries")
def _mem_nanred(case, v):
    """nan-reductions build NaN masks / replaced copies of the whole chunk in their first round: visible when the
    chunk is only 1-2 elements thick along a reduced axis (the reduced chunk is then as large as the input chunk);
    1.05x for 2-thick float32 chunks, 1.26x for 1-thick float32 chunks (intermediates are int64 + float64)."""
    if not (v.get("cls") == "task_exceeds_projected_mem" and not v.get("fused")
            and str(v.get("func", "")).startswith("nan")):
        return False
    r = v.get("ratio", 9)
    if r < 1.2:
        return True
    if r >= 1.35:
        return False
    prog = case["prog"]
    for st in prog["steps"]:
        if st["op"] != "nanred" or st["args"][0] >= len(prog["inputs"]):
            continue
        inp = prog["inputs"][st["args"][0]]
        ax = st["p"].get("axis")
        axes = range(len(inp["shape"])) if ax is None else ([ax] if isinstance(ax, int) else list(ax))
        if any(inp["chunks"][a % len(inp["shape"])] <= 1 for a in axes if len(inp["shape"])):
            return True
    return False
