"""CLI entry: ``./check <ID> [--tier quick|thorough] [--replay FILE] ...``"""
import argparse
import faulthandler
import logging
import os
import sys

VERIF = os.path.dirname(os.path.dirname(os.path.abspath(__file__)))
if VERIF not in sys.path:
    sys.path.insert(0, VERIF)


def main():
    ap = argparse.ArgumentParser()
    ap.add_argument("prop")
    ap.add_argument("--tier", default=os.environ.get("VERIF_TIER", "quick"))
    ap.add_argument("--replay")
    ap.add_argument("--seed", type=int, default=None)
    ap.add_argument("--runs", type=int, default=None)
    ap.add_argument("--minutes", type=float, default=None)
    ap.add_argument("--procs", type=int, default=None)
    ap.add_argument("--quiet", action="store_true")
    a = ap.parse_args()
    faulthandler.enable()
    import warnings

    import numpy as np

    warnings.filterwarnings("ignore")
    np.seterr(all="ignore")
    logging.getLogger("asyncio").setLevel(logging.CRITICAL)
    from checks import common

    seed = a.seed if a.seed is not None else int(os.environ.get("VERIF_SEED", "0") or 0)
    if a.replay:
        return common.main_replay(a.prop, a.replay, quiet=a.quiet)
    return common.main_check(a.prop, a.tier, seed, runs=a.runs, minutes=a.minutes,
                             procs=a.procs, quiet=a.quiet)


if __name__ == "__main__":
    sys.exit(main())
