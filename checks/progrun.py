"""Run one generated program under the simulator; shared by the program-based checks."""
from __future__ import annotations

import traceback

import numpy as np

from gen import programs as G
from sim import harness as H
from sim import store as simstore
from sim.core import Sim, activated, events_digest
from sim.loop import SimHang, SimStepLimit
from sim.tape import Tape


class RunResult:
    def __init__(self):
        self.built = None
        self.shadow = None
        self.results = None  # list aligned with requested
        self.requested = []  # value ids actually requested (not declined)
        self.phase = None  # None | 'build' | 'plan' | 'execute'
        self.exc = None
        self.exc_tb = None
        self.sim = None
        self.store = None
        self.src_store = None
        self.st = None
        self.cb = None
        self.arrays = []
        self.spec = None
        self.plan = None


def exc_where(e):
    tb = traceback.extract_tb(e.__traceback__)
    frames = [f for f in tb if "/cubed/" in f.filename and "/verif/" not in f.filename]
    fr = frames[-1] if frames else (tb[-1] if tb else None)
    if fr is None:
        return "?"
    return f"{fr.filename.split('/cubed/')[-1]}:{fr.name}"


def make_optimize_function(opt):
    """opt: None | dict(kind=..., ...) -> (optimize_graph, optimize_function)"""
    from functools import partial

    import cubed.core.optimization as co

    if opt is None or opt.get("kind") == "off":
        return False, None
    k = opt["kind"]
    if k == "default":
        return True, None
    if k == "multi":
        kw = {}
        if "max_total_source_arrays" in opt:
            kw["max_total_source_arrays"] = opt["max_total_source_arrays"]
        if "max_total_num_input_blocks" in opt:
            kw["max_total_num_input_blocks"] = opt["max_total_num_input_blocks"]
        return True, partial(co.multiple_inputs_optimize_dag, **kw)
    if k == "simple":
        return True, co.simple_optimize_dag
    if k == "fuse_all":
        return True, co.fuse_all_optimize_dag
    if k == "fuse_only":
        return True, partial(co.fuse_only_optimize_dag, only_fuse=set(opt.get("only_fuse", [])))
    raise ValueError(k)


def gen_opt(tp: Tape):
    k = tp.weighted([("default", 5), ("off", 3), ("multi", 5), ("simple", 1), ("fuse_all", 1)])
    opt = dict(kind=k)
    if k == "multi":
        if tp.coin():
            opt["max_total_source_arrays"] = tp.choice([1, 2, 3, 4, 8])
        if tp.coin():
            opt["max_total_num_input_blocks"] = tp.choice([None, 1, 2, 4, 10, 100])
    return opt


class Session:
    """One simulated run: build a program once, compute it one or more times."""

    def __init__(self, case, sched=None, body_wrapper=None, spec_kwargs=None):
        self.case = case
        self.sched = sched
        self.body_wrapper = body_wrapper
        self.spec_kwargs = spec_kwargs or {}
        self._stack = None

    def __enter__(self) -> RunResult:
        import contextlib

        case = self.case
        rr = RunResult()
        self.rr = rr
        H.reset_globals(case.get("py_seed", 0))
        tape = Tape(case["sched_seed"]) if self.sched is None else Tape(replay=self.sched)
        sim = Sim(tape, case.get("sim"))
        rr.sim, rr.tape = sim, tape
        sim.body_wrapper = self.body_wrapper
        store = simstore.SimStore(name="inter")
        src = simstore.SimStore(name="src")
        sim.attach_store(store)
        sim.attach_store(src)
        rr.store, rr.src_store = store, src
        rr.spec = H.make_spec(store, allowed_mem=case.get("allowed_mem", 200_000_000),
                              reserved_mem=case.get("reserved_mem", 0), compressor=case.get("compressor"),
                              **self.spec_kwargs)
        rr.case = case
        self._stack = contextlib.ExitStack()
        self._stack.enter_context(activated(sim))
        self._stack.enter_context(H.quiet())
        self._stack.enter_context(H.single_job_labels(sim))
        return rr

    def __exit__(self, *a):
        return self._stack.__exit__(*a)


def build_program(rr: RunResult, select_outputs=None):
    prog = rr.case["prog"]
    rr.src_store.sh.tracing = False
    try:
        rr.built = G.build(prog, rr.spec, rr.src_store)
    except Exception as e:  # noqa: BLE001 - input creation failed
        rr.phase, rr.exc, rr.exc_tb = "build", e, traceback.format_exc()
        rr.built = None
        return False
    finally:
        rr.src_store.sh.tracing = True
    outs = select_outputs(prog, rr.built) if select_outputs else prog["outputs"]
    rr.requested = [o for o in outs if rr.built.values[o] is not None]
    rr.arrays = [rr.built.values[o] for o in rr.requested]
    return bool(rr.arrays)


def compute(rr: RunResult, opt=None, exec_cfg=None, arrays=None, compute_kwargs=None, callbacks_extra=None):
    """One cubed.compute under the simulator. Returns (results|None, phase|None, exc|None)."""
    import cubed

    sim = rr.sim
    st = H.ExecState()
    rr.st = st
    executor = H.make_executor(sim, exec_cfg or rr.case["exec"], st)
    cb = H.make_callback(sim)
    rr.cb = cb
    og, of = make_optimize_function(opt if opt is not None else rr.case.get("opt"))
    kw = dict(compute_kwargs or {})
    arrays = rr.arrays if arrays is None else arrays
    try:
        res = cubed.compute(*arrays, executor=executor, callbacks=[cb] + list(callbacks_extra or []),
                            optimize_graph=og, optimize_function=of, **kw)
        return res, None, None
    except (SimHang, SimStepLimit) as e:
        e._tb = traceback.format_exc()
        return None, "execute", e
    except Exception as e:  # noqa: BLE001
        from sim.loop import quiesce_zarr_loop

        quiesce_zarr_loop()  # client-side array calls that failed half-way (store down)
        e._tb = traceback.format_exc()
        return None, ("execute" if st.entered else "plan"), e


def run_program(case, sched=None, pre_compute=None, body_wrapper=None, compute_kwargs=None,
                callbacks_extra=None, select_outputs=None) -> RunResult:
    """Build and compute case['prog'] under case['exec'], case['sim'], case['opt']."""
    with Session(case, sched, body_wrapper=body_wrapper) as rr:
        if not build_program(rr, select_outputs):
            return rr
        if pre_compute is not None:
            pre_compute(rr)
        rr.results, rr.phase, rr.exc = compute(rr, compute_kwargs=compute_kwargs, callbacks_extra=callbacks_extra)
        rr.exc_tb = getattr(rr.exc, "_tb", None)
    return rr


def compare_results(rr: RunResult, shadow: G.Shadow):
    """List of (value id, description) for requested arrays that differ from NumPy."""
    bad = []
    if rr.results is None:
        return bad
    for vid, got in zip(rr.requested, rr.results):
        if shadow.random[vid]:
            continue
        d = G.compare(np.asarray(got), shadow.values[vid], exact=shadow.exact[vid], lowprec=shadow.lowprec[vid])
        if d is not None:
            bad.append((vid, d))
    return bad


def digest(rr: RunResult, extra=()):
    res = []
    if rr.results is not None:
        for r in rr.results:
            a = np.asarray(r)
            res.append((a.shape, str(a.dtype), a.tobytes()[:4096]))
    return events_digest(rr.sim, extra=(res, rr.phase, type(rr.exc).__name__ if rr.exc else None) + tuple(extra))


def ops_used(prog):
    return sorted({s["op"] for s in prog["steps"]})
