"""Program generator and NumPy shadow.

A *program* is a JSON-serialisable dict::

    {"inputs": [{"shape": [...], "chunks": [...], "dtype": "int64", "src": "asarray",
                 "data_seed": 5, "nan": false}, ...],
     "steps":  [{"op": "add", "args": [0, 1], "p": {...}}, ...],
     "outputs": [3, 5]}

Value ids: inputs are 0..n_in-1, then every step contributes ``nout`` ids in
order.  A program is interpreted twice: with NumPy on the concrete data (the
reference model) and with cubed (lazily).  The generator evaluates the NumPy
shadow while generating, so a step is only kept if NumPy accepts it.
"""
from __future__ import annotations

import math

import numpy as np

from sim.tape import Tape

DTYPES = ["int64", "float64", "int32", "float32", "bool", "uint8", "int8", "int16", "uint16",
          "complex128"]
DTYPE_W = [8, 8, 3, 3, 2, 1, 1, 1, 1, 0]


class Decline(Exception):
    """cubed refused while building (legal for C01; judged by C17)."""

    def __init__(self, step_index, exc):
        super().__init__(f"step {step_index}: {type(exc).__name__}: {exc}")
        self.step_index = step_index
        self.exc = exc


# ---------------------------------------------------------------------------
# data
# ---------------------------------------------------------------------------

def make_data(shape, dtype, data_seed, nan=False):
    rng = np.random.RandomState(data_seed % (2**31))
    dt = np.dtype(dtype)
    shape = tuple(shape)
    if dt == np.bool_:
        a = rng.randint(0, 2, size=shape).astype(bool)
    elif dt.kind == "u":
        a = rng.randint(0, 6, size=shape).astype(dt)
    elif dt.kind == "c":
        a = (rng.randint(-3, 5, size=shape) + 1j * rng.randint(-2, 3, size=shape)).astype(dt)
    else:
        a = rng.randint(-4, 9, size=shape).astype(dt)
        if nan and dt.kind == "f" and a.size:
            m = rng.randint(0, 5, size=shape) == 0
            a[m] = np.nan
    return a


def gen_chunks(tp: Tape, shape, bias_many=True):
    cs = []
    for s in shape:
        if s <= 1:
            cs.append(max(s, 1))
            continue
        k = tp.weighted([("one", 2), ("two", 3), ("three", 2), ("rand", 4), ("full", 2), ("half", 2)])
        if k == "one":
            c = 1
        elif k == "two":
            c = 2
        elif k == "three":
            c = 3
        elif k == "rand":
            c = tp.randint(1, s)
        elif k == "half":
            c = max(1, (s + 1) // 2)
        else:
            c = s
        cs.append(min(c, s))
    return cs


def gen_shape(tp: Tape, max_extent=12, ndim=None, allow_zero=True):
    if ndim is None:
        ndim = tp.weighted([(0, 1), (1, 5), (2, 7), (3, 4), (4, 2)])
    shape = []
    for _ in range(ndim):
        k = tp.weighted([("zero", 1 if allow_zero else 0), ("one", 2), ("small", 10), ("big", 6)])
        if k == "zero":
            shape.append(0)
        elif k == "one":
            shape.append(1)
        elif k == "small":
            shape.append(tp.randint(2, min(6, max_extent)))
        else:
            shape.append(tp.randint(2, max_extent))
    # keep total size modest
    while math.prod(shape) > 3000 and len(shape) > 0:
        i = shape.index(max(shape))
        shape[i] = max(2, shape[i] // 2)
    return shape


def gen_input(tp: Tape, max_extent=12, ndim=None, shape=None, dtype=None, allow_zero=True,
              srcs=("asarray", "from_array", "from_zarr")):
    if shape is None:
        shape = gen_shape(tp, max_extent, ndim, allow_zero)
    if dtype is None:
        dtype = tp.weighted(list(zip(DTYPES, DTYPE_W)))
    chunks = gen_chunks(tp, shape)
    src = tp.weighted([(s, w) for s, w in (("asarray", 5), ("from_array", 2), ("from_zarr", 2)) if s in srcs])
    nan = np.dtype(dtype).kind == "f" and tp.coin(1, 8)
    return dict(shape=list(shape), chunks=list(chunks), dtype=dtype, src=src,
                data_seed=tp.randint(0, 10**6), nan=bool(nan))


# ---------------------------------------------------------------------------
# op registry
# ---------------------------------------------------------------------------

class Op:
    __slots__ = ("name", "arity", "gen", "np_fn", "cu_fn", "exact", "nout", "weight", "tags")

    def __init__(self, name, arity, gen, np_fn, cu_fn, exact=True, nout=1, weight=4, tags=()):
        self.name, self.arity, self.gen = name, arity, gen
        self.np_fn, self.cu_fn = np_fn, cu_fn
        self.exact, self.nout, self.weight, self.tags = exact, nout, weight, tuple(tags)


OPS: dict[str, Op] = {}


def reg(*a, **k):
    o = Op(*a, **k)
    OPS[o.name] = o
    return o


def _xp():
    import cubed.array_api as xp

    return xp


def _cubed():
    import cubed

    return cubed


def _axis(tp: Tape, ndim, allow_none=True, allow_neg=True):
    if ndim == 0:
        return None
    opts = list(range(ndim))
    if allow_neg:
        opts += [-(i + 1) for i in range(ndim)]
    if allow_none and tp.coin(1, 5):
        return None
    return tp.choice(opts)


def _axes(tp: Tape, ndim):
    """None, an int, or a tuple of distinct axes."""
    if ndim == 0 or tp.coin(1, 5):
        return None
    if ndim == 1 or tp.coin(2, 3):
        return tp.choice(list(range(ndim)) + [-1])
    k = tp.randint(1, ndim)
    return sorted(tp.sample(range(ndim), k))


def _tupleify(ax):
    return tuple(ax) if isinstance(ax, list) else ax


def _isint(a):
    return a.dtype.kind in "iu"


def _isfloat(a):
    return a.dtype.kind == "f"


def _isbool(a):
    return a.dtype.kind == "b"


def _isnum(a):
    return a.dtype.kind in "iuf"


# ---- unary elementwise ------------------------------------------------------

def _reg_unary(name, cond=lambda a: True, exact=True, np_name=None, weight=2):
    npn = np_name or name
    reg(name, 1, lambda tp, a: {} if cond(a) else None,
        lambda a, p, _n=npn: getattr(np, _n)(a),
        lambda a, p, _n=name: getattr(_xp(), _n)(a), exact=exact, weight=weight, tags=("elemwise",))


_reg_unary("negative", lambda a: _isnum(a) and a.dtype.kind != "u")
_reg_unary("abs", _isnum)
_reg_unary("square", _isnum)
_reg_unary("sign", lambda a: _isnum(a) and a.dtype.kind != "u")
_reg_unary("positive", _isnum)
_reg_unary("logical_not", _isbool)
_reg_unary("bitwise_invert", lambda a: _isint(a) or _isbool(a), np_name="invert")
_reg_unary("isnan", _isfloat)
_reg_unary("isfinite", _isfloat)
_reg_unary("floor", _isfloat)
_reg_unary("ceil", _isfloat)
_reg_unary("trunc", _isfloat)
_reg_unary("exp", _isfloat, exact=False, weight=1)
_reg_unary("sqrt", lambda a: _isfloat(a) and (a.size == 0 or np.nanmin(a) >= 0), exact=False, weight=1)
_reg_unary("real", lambda a: a.dtype.kind == "c", weight=1)
_reg_unary("imag", lambda a: a.dtype.kind == "c", weight=1)
_reg_unary("conj", lambda a: a.dtype.kind == "c", weight=1)

for _n in ("sin", "cos", "tanh", "expm1", "atan", "sinh", "log1p"):
    _reg_unary(_n, (lambda a: _isfloat(a) and (a.size == 0 or (np.nanmin(a) > -0.9))) if _n == "log1p" else _isfloat,
               exact=False, weight=1)

reg("astype", 1,
    lambda tp, a: dict(dtype=tp.choice(["int64", "float64", "int32", "float32", "bool", "uint8"]))
    if a.dtype.kind != "c" and not (a.dtype.kind == "f" and np.isnan(a).any()) else None,
    lambda a, p: _np_astype(a, p["dtype"]),
    lambda a, p: _xp().astype(a, getattr(_xp(), p["dtype"])), tags=("elemwise",))


def _np_astype(a, dtype):
    dt = np.dtype(dtype)
    if dt.kind == "u" and a.dtype.kind in "if" and a.size and a.min() < 0:
        raise ValueError("negative to unsigned: undefined")
    return a.astype(dt)


# ---- binary elementwise with broadcasting -------------------------------------

def _np_result_ok(a, b):
    # array API type promotion: refuse mixed kinds that the standard leaves undefined
    ka, kb = a.dtype.kind, b.dtype.kind
    if "b" in (ka, kb) and ka != kb:
        return False
    if {ka, kb} == {"i", "u"} and (a.dtype.itemsize == 8 or b.dtype.itemsize == 8) and \
            ("u" in (ka, kb)) and max(a.dtype.itemsize, b.dtype.itemsize) == 8 and \
            (a.dtype == np.uint64 or b.dtype == np.uint64):
        return False
    if ("f" in (ka, kb) or "c" in (ka, kb)) and (ka in "iu" or kb in "iu"):
        return False  # int + float mixing is not defined by the standard
    if "c" in (ka, kb) and ka != kb:
        return False
    return True


def _reg_binary(name, cond=lambda a, b: True, exact=True, np_name=None, weight=3):
    npn = np_name or name
    reg(name, 2, lambda tp, a, b: {} if (_np_result_ok(a, b) and cond(a, b)) else None,
        lambda a, b, p, _n=npn: getattr(np, _n)(a, b),
        lambda a, b, p, _n=name: getattr(_xp(), _n)(a, b), exact=exact, weight=weight,
        tags=("elemwise", "binary"))


_num2 = lambda a, b: _isnum(a) and _isnum(b)  # noqa: E731
_reg_binary("add", _num2, weight=6)
_reg_binary("subtract", _num2)
_reg_binary("multiply", _num2, weight=4)
_reg_binary("maximum", _num2)
_reg_binary("minimum", _num2)
_reg_binary("equal", weight=2)
_reg_binary("not_equal", weight=1)
_reg_binary("less", _num2, weight=1)
_reg_binary("greater_equal", _num2, weight=1)
_reg_binary("logical_and", lambda a, b: _isbool(a) and _isbool(b), weight=1)
_reg_binary("logical_or", lambda a, b: _isbool(a) and _isbool(b), weight=1)
_reg_binary("logical_xor", lambda a, b: _isbool(a) and _isbool(b), weight=1)
_reg_binary("bitwise_and", lambda a, b: (_isint(a) and _isint(b)) or (_isbool(a) and _isbool(b)), weight=1)
_reg_binary("bitwise_or", lambda a, b: (_isint(a) and _isint(b)) or (_isbool(a) and _isbool(b)), weight=1)
_reg_binary("bitwise_xor", lambda a, b: (_isint(a) and _isint(b)) or (_isbool(a) and _isbool(b)), weight=1)
_reg_binary("divide", lambda a, b: _isfloat(a) and _isfloat(b) and (b.size == 0 or not (b == 0).any()),
            exact=False, weight=2)
_reg_binary("remainder", lambda a, b: _isint(a) and _isint(b) and (b.size == 0 or not (b == 0).any()), weight=1)
_reg_binary("floor_divide", lambda a, b: _isint(a) and _isint(b) and (b.size == 0 or not (b == 0).any()), weight=1)

_f2 = lambda a, b: _isfloat(a) and _isfloat(b)  # noqa: E731
_reg_binary("atan2", _f2, exact=False, weight=1, np_name="arctan2")
_reg_binary("hypot", _f2, exact=False, weight=1)
_reg_binary("logaddexp", _f2, exact=False, weight=1)
_reg_binary("copysign", _f2, weight=1)

# (cubed's isin compares every block of x1 with every block of x2: kept to small operands)
reg("isin", 2, lambda tp, a, b: {} if _isint(a) and _isint(b) and a.dtype == b.dtype and 0 < b.size <= 12 and a.size <= 40 and a.ndim <= 2 and b.ndim <= 1 else None,
    lambda a, b, p: np.isin(a, b), lambda a, b, p: _xp().isin(a, b), weight=1, tags=("elemwise",))


def _gu_add(x, y):
    return x + y


reg("apply_gufunc", 2, lambda tp, a, b: {} if _num2(a, b) and a.dtype == b.dtype and a.shape == b.shape and a.dtype.kind != "u" else None,
    lambda a, b, p: a + b,
    lambda a, b, p: _cubed().apply_gufunc(_gu_add, "(),()->()", a, b, output_dtypes=a.dtype), weight=2, tags=("elemwise",))

reg("meshgrid", 2, lambda tp, a, b: dict(indexing=tp.choice(["xy", "ij"])) if a.ndim == 1 and b.ndim == 1 and a.dtype == b.dtype and a.size and b.size else None,
    lambda a, b, p: list(np.meshgrid(a, b, indexing=p["indexing"])),
    lambda a, b, p: list(_xp().meshgrid(a, b, indexing=p["indexing"])), nout=2, weight=1, tags=("manip", "multi"))

# python scalar operand (exercises _promote_scalar)
reg("scalar_op", 1,
    lambda tp, a: dict(fn=tp.choice(["add", "mul", "rsub", "pow2", "lt"]), k=tp.randint(-2, 3))
    if _isnum(a) and a.dtype.kind != "u" else None,
    lambda a, p: _scalar_np(a, p), lambda a, p: _scalar_cu(a, p), tags=("elemwise",), weight=3)


def _scalar_np(a, p):
    k = p["k"] if a.dtype.kind != "f" else float(p["k"])
    f = p["fn"]
    with np.errstate(all="ignore"):
        if f == "add":
            return (a + k).astype(a.dtype)
        if f == "mul":
            return (a * k).astype(a.dtype)
        if f == "rsub":
            return (k - a).astype(a.dtype)
        if f == "pow2":
            return (a * a).astype(a.dtype)
        return a < k


def _scalar_cu(a, p):
    k = p["k"] if a.dtype.kind != "f" else float(p["k"])
    f = p["fn"]
    if f == "add":
        return a + k
    if f == "mul":
        return k * a
    if f == "rsub":
        return k - a
    if f == "pow2":
        return a ** 2
    return a < k


def _where_gen(tp, c, a, b):
    if not _isbool(c) or not _np_result_ok(a, b):
        return None
    return {}


reg("where", 3, _where_gen, lambda c, a, b, p: np.where(c, a, b),
    lambda c, a, b, p: _xp().where(c, a, b), tags=("elemwise",), weight=3)

reg("clip", 1, lambda tp, a: dict(lo=tp.choice([None, tp.randint(-3, 1)]) if tp.coin(1, 4) else tp.randint(-3, 1), hi=tp.randint(2, 6)) if _isnum(a) and a.dtype.kind != "u" and not (_isfloat(a) and np.isnan(a).any()) else None,
    lambda a, p: np.clip(a, p["lo"], p["hi"]),
    lambda a, p: _xp().clip(a, p["lo"], p["hi"]), tags=("elemwise",), weight=1)


# ---- indexing -------------------------------------------------------------------

def _gen_index(tp: Tape, a):
    if a.ndim == 0:
        return None
    idx = []
    used_array = False
    used_mask = False
    for s in a.shape:
        k = tp.weighted([("full", 4), ("slice", 8), ("int", 2 if s > 0 else 0),
                         ("arr", 2 if (s > 0 and not used_array) else 0), ("neg", 3),
                         ("mask", 1 if (0 < s <= 8 and not used_mask) else 0)])
        if k == "full":
            idx.append(["s", None, None, None])
        elif k == "slice":
            start = tp.choice([None, 0, tp.randint(0, max(0, s)), -tp.randint(1, s + 1)])
            stop = tp.choice([None, tp.randint(0, s + 2), -tp.randint(0, s + 1)])
            step = tp.choice([None, 1, 2, 3, tp.randint(1, max(1, s))])
            idx.append(["s", start, stop, step])
        elif k == "neg":
            start = tp.choice([None, s - 1, tp.randint(0, max(0, s)), -1])
            stop = tp.choice([None, 0, -tp.randint(1, s + 2)])
            step = -tp.choice([1, 1, 2, 3])
            idx.append(["s", start, stop, step])
        elif k == "int":
            idx.append(["i", tp.randint(-s, s - 1)])
        elif k == "mask":
            # a 1-d boolean mask for this axis (NumPy treats it as the integer array of its True positions)
            used_mask = True
            idx.append(["m", [bool(tp.coin(1, 2)) for _ in range(s)]])
        else:
            used_array = True
            n = tp.randint(1, min(6, s + 2))
            idx.append(["a", [tp.randint(-s, s - 1) if tp.coin(1, 4) else tp.randint(0, s - 1) for _ in range(n)]])
    # maybe an ellipsis instead of a run of full slices at either end
    if tp.coin(1, 6):
        if idx and idx[-1] == ["s", None, None, None]:
            while idx and idx[-1] == ["s", None, None, None]:
                idx.pop()
            idx.append(["e"])
        elif idx and idx[0] == ["s", None, None, None] and not any(e[0] in ("a", "m") for e in idx):
            while idx and idx[0] == ["s", None, None, None]:
                idx.pop(0)
            idx.insert(0, ["e"])
    # maybe newaxis somewhere
    if tp.coin(1, 6):
        idx.insert(tp.randint(0, len(idx)), ["n"])
    # maybe drop trailing full slices / use fewer indices
    if tp.coin(1, 4):
        while idx and idx[-1] == ["s", None, None, None]:
            idx.pop()
        if not idx:
            idx = [["s", None, None, None]]
    return dict(idx=idx)


def _mk_index(idx, lib):
    out = []
    for e in idx:
        if e[0] == "s":
            out.append(slice(e[1], e[2], e[3]))
        elif e[0] == "i":
            out.append(e[1])
        elif e[0] == "n":
            out.append(None)
        elif e[0] == "e":
            out.append(Ellipsis)
        elif e[0] == "m":
            out.append(np.asarray(e[1], dtype=bool))
        else:
            out.append(np.asarray(e[1], dtype=np.int64) if lib == "np" else list(e[1]))
    return tuple(out)


reg("getitem", 1, _gen_index, lambda a, p: a[_mk_index(p["idx"], "np")],
    lambda a, p: a[_mk_index(p["idx"], "cu")], weight=8, tags=("index",))


def _gen_take(tp, a):
    if a.ndim == 0 or any(s == 0 for s in a.shape):
        return None
    ax = tp.randint(0, a.ndim - 1)
    s = a.shape[ax]
    return dict(axis=ax, ind=[tp.randint(0, s - 1) for _ in range(tp.randint(1, 6))], ichunk=tp.randint(1, 3))


reg("take", 1, _gen_take, lambda a, p: np.take(a, np.asarray(p["ind"]), axis=p["axis"]),
    lambda a, p: _xp().take(a, _xp().asarray(np.asarray(p["ind"]), chunks=p["ichunk"], spec=a.spec), axis=p["axis"]),
    weight=2, tags=("index",))


# ---- manipulation -------------------------------------------------------------------

def _gen_concat(tp, *arrs):
    a = arrs[0]
    if a.ndim == 0:
        return None
    if tp.coin(1, 8) and all(_np_result_ok(a, b) for b in arrs[1:]):
        return dict(axis=None)  # flattens every input first
    for ax in tp.shuffle(range(a.ndim)):
        ok = all(b.ndim == a.ndim and all(b.shape[i] == a.shape[i] for i in range(a.ndim) if i != ax)
                 for b in arrs)
        if ok and all(_np_result_ok(a, b) for b in arrs[1:]):
            return dict(axis=ax if tp.coin() else ax - a.ndim)
    return None


reg("concat", 2, _gen_concat, lambda a, b, p: np.concatenate([a, b], axis=p["axis"]),
    lambda a, b, p: _xp().concat([a, b], axis=p["axis"]), weight=5, tags=("manip",))
reg("concat3", 3, _gen_concat, lambda a, b, c, p: np.concatenate([a, b, c], axis=p["axis"]),
    lambda a, b, c, p: _xp().concat([a, b, c], axis=p["axis"]), weight=2, tags=("manip",))


def _gen_stack(tp, *arrs):
    a = arrs[0]
    if not all(b.shape == a.shape and b.dtype == a.dtype for b in arrs):
        return None
    return dict(axis=tp.randint(-(a.ndim + 1), a.ndim))


reg("stack", 2, _gen_stack, lambda a, b, p: np.stack([a, b], axis=p["axis"]),
    lambda a, b, p: _xp().stack([a, b], axis=p["axis"]), weight=5, tags=("manip",))
reg("stack3", 3, _gen_stack, lambda a, b, c, p: np.stack([a, b, c], axis=p["axis"]),
    lambda a, b, c, p: _xp().stack([a, b, c], axis=p["axis"]), weight=2, tags=("manip",))


def _gen_reshape(tp, a):
    n = a.size
    if a.ndim == 0:
        return dict(shape=tp.choice([[1], [1, 1], []]))
    cands = [[n], [-1]]
    # split / merge dims
    fs = [d for d in range(1, n + 1) if n % d == 0][:40] if n > 0 else [1]
    for _ in range(4):
        d = tp.choice(fs)
        cands.append([d, n // d] if n else [0, tp.randint(1, 3)])
        d2 = tp.choice([x for x in fs if (n // d) % x == 0] or [1]) if n else 1
        if n:
            cands.append([d, d2, (n // d) // d2])
    if a.ndim >= 2:
        cands.append([a.shape[0], -1])
        cands.append([-1, a.shape[-1]])
        cands.append([a.shape[0] * a.shape[1]] + list(a.shape[2:]))
    cands.append(list(a.shape) + [1])
    cands.append([1] + list(a.shape))
    return dict(shape=tp.choice(cands))


reg("reshape", 1, _gen_reshape, lambda a, p: np.reshape(a, tuple(p["shape"])),
    lambda a, p: _xp().reshape(a, tuple(p["shape"])), weight=5, tags=("manip",))

reg("flip", 1, lambda tp, a: dict(axis=_axes(tp, a.ndim)) if a.ndim else None,
    lambda a, p: np.flip(a, axis=_tupleify(p["axis"])),
    lambda a, p: _xp().flip(a, axis=_tupleify(p["axis"])), weight=3, tags=("manip",))


def _gen_roll(tp, a):
    if a.ndim == 0:
        return None
    if tp.coin(1, 4):
        return dict(shift=tp.randint(-7, 7), axis=None)
    if tp.coin(1, 3) and a.ndim >= 2:
        axes = tp.sample(range(a.ndim), 2)
        return dict(shift=[tp.randint(-5, 5), tp.randint(-5, 5)], axis=axes)
    return dict(shift=tp.randint(-7, 7), axis=tp.choice(list(range(a.ndim)) + [-1]))


reg("roll", 1, _gen_roll, lambda a, p: np.roll(a, _tupleify(p["shift"]), axis=_tupleify(p["axis"])),
    lambda a, p: _xp().roll(a, _tupleify(p["shift"]), axis=_tupleify(p["axis"])), weight=3, tags=("manip",))

reg("repeat", 1, lambda tp, a: dict(repeats=tp.randint(1, 4), axis=tp.choice([None] + list(range(a.ndim)))) if a.ndim else None,
    lambda a, p: np.repeat(a, p["repeats"], axis=p["axis"]),
    lambda a, p: _xp().repeat(a, p["repeats"], axis=p["axis"]), weight=3, tags=("manip",))

reg("tile", 1, lambda tp, a: dict(reps=[tp.randint(1, 3) for _ in range(tp.randint(1, max(1, a.ndim) + 1))]),
    lambda a, p: np.tile(a, tuple(p["reps"])),
    lambda a, p: _xp().tile(a, tuple(p["reps"])), weight=2, tags=("manip",))

reg("expand_dims", 1, lambda tp, a: dict(axis=tp.randint(-(a.ndim + 1), a.ndim)),
    lambda a, p: np.expand_dims(a, p["axis"]),
    lambda a, p: _xp().expand_dims(a, axis=p["axis"]), weight=2, tags=("manip",))


def _gen_squeeze(tp, a):
    ones = [i for i, s in enumerate(a.shape) if s == 1]
    if not ones:
        return None
    k = tp.randint(1, len(ones))
    ax = sorted(tp.sample(ones, k))
    return dict(axis=ax if len(ax) > 1 or tp.coin() else ax[0])


reg("squeeze", 1, _gen_squeeze, lambda a, p: np.squeeze(a, axis=_tupleify(p["axis"])),
    lambda a, p: _xp().squeeze(a, axis=_tupleify(p["axis"])), weight=2, tags=("manip",))

reg("permute_dims", 1, lambda tp, a: dict(axes=tp.shuffle(range(a.ndim))) if a.ndim >= 1 else None,
    lambda a, p: np.transpose(a, p["axes"]),
    lambda a, p: _xp().permute_dims(a, tuple(p["axes"])), weight=4, tags=("manip",))

def _gen_moveaxis(tp, a):
    if a.ndim < 1:
        return None
    if a.ndim >= 2 and tp.coin(1, 2):
        k = tp.randint(2, a.ndim)
        src = tp.sample(range(a.ndim), k)
        dst = tp.sample(range(a.ndim), k)
        if tp.coin(1, 3):
            src = [x - a.ndim for x in src]
        return dict(src=src, dst=dst)
    return dict(src=tp.randint(-a.ndim, a.ndim - 1), dst=tp.randint(-a.ndim, a.ndim - 1))


reg("moveaxis", 1, _gen_moveaxis,
    lambda a, p: np.moveaxis(a, _tupleify(p["src"]), _tupleify(p["dst"])),
    lambda a, p: _xp().moveaxis(a, _tupleify(p["src"]), _tupleify(p["dst"])), weight=5, tags=("manip",))

reg("matrix_transpose", 1, lambda tp, a: {} if a.ndim >= 2 else None,
    lambda a, p: np.swapaxes(a, -1, -2), lambda a, p: _xp().matrix_transpose(a), weight=2, tags=("manip",))


def _gen_broadcast_to(tp, a):
    extra = [tp.randint(1, 3) for _ in range(tp.randint(0, 2))]
    shape = extra + [s if s != 1 or tp.coin() else tp.randint(1, 4) for s in a.shape]
    if len(shape) > 4:
        return None
    return dict(shape=shape)


reg("broadcast_to", 1, _gen_broadcast_to, lambda a, p: np.broadcast_to(a, tuple(p["shape"])),
    lambda a, p: _xp().broadcast_to(a, tuple(p["shape"])), weight=3, tags=("manip",))


def _gen_bcast_arrays(tp, a, b):
    try:
        np.broadcast_shapes(a.shape, b.shape)
    except ValueError:
        return None
    return {}


reg("broadcast_arrays", 2, _gen_bcast_arrays, lambda a, b, p: list(np.broadcast_arrays(a, b)),
    lambda a, b, p: list(_xp().broadcast_arrays(a, b)), nout=2, weight=2, tags=("manip", "multi"))


def _gen_unstack(tp, a):
    if a.ndim == 0:
        return None
    ax = tp.randint(0, a.ndim - 1)
    if a.shape[ax] != 2:
        return None
    return dict(axis=ax)


def _gen_unstack3(tp, a):
    if a.ndim == 0:
        return None
    ax = tp.randint(0, a.ndim - 1)
    if a.shape[ax] != 3:
        return None
    return dict(axis=ax)


reg("unstack3", 1, _gen_unstack3, lambda a, p: [np.take(a, i, axis=p["axis"]) for i in range(3)],
    lambda a, p: list(_xp().unstack(a, axis=p["axis"])), nout=3, weight=3, tags=("manip", "multi"))

reg("unstack2", 1, _gen_unstack, lambda a, p: [np.take(a, i, axis=p["axis"]) for i in range(2)],
    lambda a, p: list(_xp().unstack(a, axis=p["axis"])), nout=2, weight=6, tags=("manip", "multi"))


def _gen_rechunk(tp, a):
    if a.ndim == 0:
        return None
    from gen.programs import gen_chunks as gc

    p = dict(chunks=gc(tp, a.shape))
    if tp.coin(1, 3):
        p["allow_irregular"] = False
    if tp.coin(1, 4):
        p["min_mem"] = tp.choice([0, 16, 64, 256, 1024])
    return p


def _cu_rechunk(a, p):
    from cubed.core.ops import rechunk

    kw = {}
    if "allow_irregular" in p:
        kw["allow_irregular"] = p["allow_irregular"]
    if "min_mem" in p:
        kw["min_mem"] = p["min_mem"]
    if kw:
        return rechunk(a, tuple(p["chunks"]), **kw)
    return a.rechunk(tuple(p["chunks"]))


reg("rechunk", 1, _gen_rechunk, lambda a, p: a, _cu_rechunk, weight=6, tags=("rechunk",))


# -- block view: x.rechunk(c).blocks[idx] (the chunk grid is fixed by the step itself, so the NumPy shadow knows it) ---

def _gen_blocks(tp, a):
    if a.ndim == 0 or a.size == 0 or a.ndim > 3:
        return None
    from gen.programs import gen_chunks as gc

    chunks = gc(tp, a.shape)
    idx = []
    for n, c in zip(a.shape, chunks):
        nb = -(-n // max(c, 1))
        k = tp.weighted([("all", 4), ("int", 2), ("slice", 3), ("rev", 2), ("list", 2)])
        if len(idx) and any(e[0] == "list" for e in idx) and k == "list":
            k = "slice"
        if k == "all":
            idx.append(["all"])
        elif k == "int":
            idx.append(["int", tp.randint(-nb, nb - 1)])
        elif k == "slice":
            lo = tp.randint(0, nb - 1)
            idx.append(["slice", lo, tp.randint(lo + 1, nb), tp.choice([1, 1, 2])])
        elif k == "rev":
            idx.append(["slice", None, None, -1])
        else:
            idx.append(["list", [tp.randint(0, nb - 1) for _ in range(tp.randint(1, 3))]])
    return dict(chunks=list(chunks), idx=idx)


def _blocks_index(p):
    out = []
    for e in p["idx"]:
        if e[0] == "all":
            out.append(slice(None))
        elif e[0] == "int":
            out.append(e[1])
        elif e[0] == "slice":
            out.append(slice(e[1], e[2], e[3]))
        else:
            out.append(list(e[1]))
    return tuple(out)


def _np_blocks(a, p):
    """Blocks of the regular grid p['chunks'] selected per axis, concatenated (integer indices keep the axis,
    like cubed's / dask's block view)."""
    out = a
    for ax, (c, sel) in enumerate(zip(p["chunks"], _blocks_index(p))):
        n = a.shape[ax]
        c = max(c, 1)
        nb = -(-n // c)
        ids = list(range(nb))
        if isinstance(sel, int):
            ids = [ids[sel]]
        elif isinstance(sel, slice):
            ids = ids[sel]
        else:
            ids = [ids[i] for i in sel]
        parts = [np.take(out, np.arange(i * c, min((i + 1) * c, n)), axis=ax) for i in ids]
        if not parts:
            raise ValueError("empty block selection")
        out = np.concatenate(parts, axis=ax)
    return out


def _cu_blocks(a, p):
    return a.rechunk(tuple(p["chunks"])).blocks[_blocks_index(p)]


reg("blocks", 1, _gen_blocks, _np_blocks, _cu_blocks, weight=2, tags=("manip", "rechunk"))


def _gen_merge_chunks(tp, a):
    # chunks must be a multiple of the current chunk size: the cubed shape is
    # not known to the NumPy shadow, so the multiple is resolved at cubed time
    if a.ndim == 0 or a.size == 0:
        return None  # internal helper; zero-size arrays are not a public use
    return dict(mult=[tp.randint(1, 3) for _ in range(a.ndim)])


def _cu_merge_chunks(a, p):
    from cubed.core.ops import merge_chunks

    cs = tuple(min(max(c * m, 1), max(s, 1)) if c * m < s else s
               for c, m, s in zip(a.chunksize, p["mult"], a.shape))
    return merge_chunks(a, cs)


reg("merge_chunks", 1, _gen_merge_chunks, lambda a, p: a, _cu_merge_chunks, weight=2, tags=("rechunk",))

reg("tril", 1, lambda tp, a: dict(k=tp.randint(-2, 2), fn=tp.choice(["tril", "triu"])) if a.ndim >= 2 else None,
    lambda a, p: getattr(np, p["fn"])(a, k=p["k"]),
    lambda a, p: getattr(_xp(), p["fn"])(a, k=p["k"]), weight=2, tags=("manip",))


# ---- reductions ---------------------------------------------------------------------

def _gen_reduce(kinds):
    def g(tp, a):
        if a.dtype.kind not in kinds:
            return None
        if a.dtype.kind == "f" and np.isnan(a).any():
            return None
        ax = _axes(tp, a.ndim)
        p = dict(axis=ax, keepdims=tp.coin(1, 3))
        if tp.coin(1, 3):
            p["split_every"] = tp.choice([2, 3, 4, 5])
        elif a.ndim >= 2 and tp.coin(1, 4):
            # per-axis fan-in (dict form), possibly covering only some of the reduced axes
            axs = list(range(a.ndim)) if ax is None else ([ax % a.ndim] if isinstance(ax, int) else list(ax))
            sel = [i for i in axs if tp.coin(2, 3)] or axs[:1]
            p["split_every"] = {str(i): tp.choice([2, 3, 4]) for i in sel}
        return p

    return g


def _np_reduce(name):
    def f(a, p):
        with np.errstate(all="ignore"):
            return getattr(np, name)(a, axis=_tupleify(p["axis"]), keepdims=p["keepdims"])

    return f


def _split_every(p):
    se = p["split_every"]
    return {int(k): v for k, v in se.items()} if isinstance(se, dict) else se


def _cu_reduce(name):
    def f(a, p):
        kw = dict(axis=_tupleify(p["axis"]), keepdims=p["keepdims"])
        if "split_every" in p:
            kw["split_every"] = _split_every(p)
        return getattr(_xp(), name)(a, **kw)

    return f


def _nonempty_axes(a, p):
    ax = p["axis"]
    if ax is None:
        return a.size > 0
    axs = [ax] if isinstance(ax, int) else ax
    return all(a.shape[i] > 0 for i in axs)


reg("sum", 1, _gen_reduce("iufb"), _np_reduce("sum"), _cu_reduce("sum"), weight=8, tags=("reduce",))
reg("prod", 1, _gen_reduce("iuf"), _np_reduce("prod"), _cu_reduce("prod"), weight=3, tags=("reduce",))
for _n in ("max", "min"):
    reg(_n, 1, (lambda g: (lambda tp, a: (lambda p: p if p and _nonempty_axes(a, p) else None)(g(tp, a))))(_gen_reduce("iuf")),
        _np_reduce(_n), _cu_reduce(_n), weight=4, tags=("reduce",))
reg("mean", 1, _gen_reduce("f"), _np_reduce("mean"), _cu_reduce("mean"), exact=False, weight=4, tags=("reduce",))
reg("any", 1, _gen_reduce("biuf"), _np_reduce("any"), _cu_reduce("any"), weight=2, tags=("reduce",))
reg("all", 1, _gen_reduce("biuf"), _np_reduce("all"), _cu_reduce("all"), weight=2, tags=("reduce",))


def _gen_var(tp, a):
    p = _gen_reduce("f")(tp, a)
    if p is None or not _nonempty_axes(a, p):
        return None
    p["correction"] = tp.choice([0, 0, 1])
    p["fn"] = tp.choice(["var", "std"])
    return p


reg("var", 1, _gen_var,
    lambda a, p: _np_var(a, p),
    lambda a, p: getattr(_xp(), p["fn"])(a, axis=_tupleify(p["axis"]), keepdims=p["keepdims"],
                                          correction=p["correction"],
                                          **({"split_every": _split_every(p)} if "split_every" in p else {})),
    exact=False, weight=3, tags=("reduce",))


def _np_var(a, p):
    with np.errstate(all="ignore"):
        return getattr(np, p["fn"])(a, axis=_tupleify(p["axis"]), keepdims=p["keepdims"], ddof=p["correction"])


def _gen_argred(tp, a):
    if a.dtype.kind not in "iuf" or a.size == 0 or a.ndim == 0:
        return None
    if a.dtype.kind == "f" and np.isnan(a).any():
        return None
    ax = tp.choice([None] + list(range(a.ndim)) + [-1]) if tp.coin(1, 4) else tp.choice(list(range(a.ndim)))
    p = dict(axis=ax, keepdims=tp.coin(1, 3), fn=tp.choice(["argmax", "argmin"]))
    if tp.coin(1, 3):
        p["split_every"] = tp.choice([2, 3, 4])
    return p


reg("argred", 1, _gen_argred,
    lambda a, p: getattr(np, p["fn"])(a, axis=p["axis"], keepdims=p["keepdims"]),
    lambda a, p: getattr(_xp(), p["fn"])(a, axis=p["axis"], keepdims=p["keepdims"],
                                          **({"split_every": p["split_every"]} if "split_every" in p else {})),
    weight=4, tags=("reduce",))


def _gen_cum(tp, a):
    if a.dtype.kind not in "iuf" or a.ndim == 0:
        return None
    if a.dtype.kind == "f" and np.isnan(a).any():
        return None
    return dict(axis=tp.choice(list(range(a.ndim)) + [-1]), fn=tp.choice(["cumulative_sum", "cumulative_sum", "cumulative_prod"]),
                include_initial=tp.coin(1, 4))


def _np_cum(a, p):
    f = np.cumsum if p["fn"] == "cumulative_sum" else np.cumprod
    with np.errstate(all="ignore"):
        r = f(a, axis=p["axis"])
    if p["include_initial"]:
        shp = list(a.shape)
        shp[p["axis"]] = 1
        init = np.zeros(shp, dtype=r.dtype) if p["fn"] == "cumulative_sum" else np.ones(shp, dtype=r.dtype)
        r = np.concatenate([init, r], axis=p["axis"])
    return r


reg("cumulative", 1, _gen_cum, _np_cum,
    lambda a, p: getattr(_xp(), p["fn"])(a, axis=p["axis"], include_initial=p["include_initial"]),
    weight=5, tags=("scan",))

reg("count_nonzero", 1, lambda tp, a: dict(axis=_axes(tp, a.ndim), keepdims=tp.coin(1, 3)) if a.dtype.kind in "iufb" and not (_isfloat(a) and np.isnan(a).any()) else None,
    lambda a, p: np.count_nonzero(a, axis=_tupleify(p["axis"]), keepdims=p["keepdims"]),
    lambda a, p: _xp().count_nonzero(a, axis=_tupleify(p["axis"]), keepdims=p["keepdims"]), weight=1, tags=("reduce",))

reg("diff", 1, lambda tp, a: dict(axis=tp.choice(list(range(a.ndim)) + [-1]), n=tp.choice([1, 1, 2])) if a.ndim and a.dtype.kind in "if" and not (_isfloat(a) and np.isnan(a).any()) else None,
    lambda a, p: np.diff(a, n=p["n"], axis=p["axis"]),
    lambda a, p: _xp().diff(a, axis=p["axis"], n=p["n"]), weight=2, tags=("manip",))


def _gen_nanred(tp, a):
    if a.dtype.kind not in "fi" or (a.dtype.kind == "i" and a.dtype.itemsize < 8 and tp.coin(1, 2)):
        return None
    fn = tp.choice(["nansum", "nanmax", "nanmin", "nanmean", "nanprod", "nanstd", "nanvar"])
    p = dict(axis=_axes(tp, a.ndim), keepdims=tp.coin(1, 3), fn=fn)
    if fn in ("nanmax", "nanmin", "nanstd", "nanvar"):
        if not _nonempty_axes(a, p):
            return None
    return p


def _np_nanred(a, p):
    import warnings

    with warnings.catch_warnings(), np.errstate(all="ignore"):
        warnings.simplefilter("ignore")
        return getattr(np, p["fn"])(a, axis=_tupleify(p["axis"]), keepdims=p["keepdims"])


reg("nanred", 1, _gen_nanred, _np_nanred,
    lambda a, p: getattr(_cubed(), p["fn"])(a, axis=_tupleify(p["axis"]), keepdims=p["keepdims"]),
    exact=False, weight=3, tags=("reduce",))


# ---- linear algebra -------------------------------------------------------------------

def _finite(*arrs):
    return all(not (x.dtype.kind in "fc" and x.size and not np.isfinite(x).all()) for x in arrs)


def _gen_matmul(tp, a, b):
    if not (_isnum(a) and _isnum(b) and _np_result_ok(a, b)) or a.ndim == 0 or b.ndim == 0:
        return None
    if not _finite(a, b):
        return None  # BLAS short-cuts make 0*nan depend on block shapes in NumPy itself
    try:
        np.matmul(np.empty(a.shape, dtype=np.int8), np.empty(b.shape, dtype=np.int8))
    except ValueError:
        return None
    return {}


reg("matmul", 2, _gen_matmul, lambda a, b, p: np.matmul(a, b), lambda a, b, p: _xp().matmul(a, b),
    weight=6, tags=("linalg",))


def _gen_tensordot(tp, a, b):
    if not (_isnum(a) and _isnum(b) and _np_result_ok(a, b)) or a.ndim == 0 or b.ndim == 0:
        return None
    if not _finite(a, b):
        return None
    for k in tp.shuffle([1, 2, 0]):
        if k <= a.ndim and k <= b.ndim and (k == 0 or a.shape[-k:] == b.shape[:k]) and a.ndim + b.ndim - 2 * k <= 4:
            return dict(axes=k)
    # explicit axes
    for i in tp.shuffle(range(a.ndim)):
        for j in tp.shuffle(range(b.ndim)):
            if a.shape[i] == b.shape[j] and a.ndim + b.ndim - 2 <= 4:
                return dict(axes=[[i], [j]])
    return None


def _td_axes(ax):
    return ax if isinstance(ax, int) else (tuple(ax[0]), tuple(ax[1]))


reg("tensordot", 2, _gen_tensordot, lambda a, b, p: np.tensordot(a, b, axes=_td_axes(p["axes"])),
    lambda a, b, p: _xp().tensordot(a, b, axes=_td_axes(p["axes"])), weight=3, tags=("linalg",))


def _gen_vecdot(tp, a, b):
    if not (_isnum(a) and _isnum(b) and _np_result_ok(a, b)) or a.ndim == 0 or b.ndim == 0:
        return None
    if a.shape[-1] != b.shape[-1] or not _finite(a, b):
        return None
    try:
        np.broadcast_shapes(a.shape, b.shape)
    except ValueError:
        return None
    return dict(axis=-1)


reg("vecdot", 2, _gen_vecdot, lambda a, b, p: np.vecdot(a, b, axis=-1),
    lambda a, b, p: _xp().vecdot(a, b, axis=-1), weight=2, tags=("linalg",))

reg("outer", 2, lambda tp, a, b: {} if a.ndim == 1 and b.ndim == 1 and _isnum(a) and _isnum(b) and _np_result_ok(a, b) and _finite(a, b) else None,
    lambda a, b, p: np.outer(a, b), lambda a, b, p: _linalg().outer(a, b), weight=2, tags=("linalg",))


def _linalg():
    import cubed.array_api.linalg as la

    return la


def _gen_qr(tp, a):
    if a.ndim != 2 or a.dtype.kind != "f" or a.size == 0 or np.isnan(a).any():
        return None
    if a.shape[0] < a.shape[1]:
        return None
    return {}


def _gen_svd(tp, a):
    # NumPy evaluates the reduced SVD of any 2-d matrix, wide ones included (cubed transposes them)
    if a.ndim != 2 or a.dtype.kind != "f" or a.size == 0 or np.isnan(a).any():
        return None
    return {}


def _np_qr(a, p):
    q, r = np.linalg.qr(a)
    return [q, r]


reg("qr", 1, _gen_qr, _np_qr, lambda a, p: list(_linalg().qr(a)), exact=False, nout=2, weight=4,
    tags=("linalg", "multi", "qr"))


def _np_svd(a, p):
    u, s, vh = np.linalg.svd(a, full_matrices=False)
    return [u, s, vh]


def _cu_qr_recon(a, p):
    q, r = _linalg().qr(a)
    return _xp().matmul(q, r)


def _cu_svd_recon(a, p):
    xp = _xp()
    u, s_, vh = _linalg().svd(a, full_matrices=False)
    return xp.matmul(u * xp.expand_dims(s_, axis=0), vh)


# Q and R (U, Vh) are only unique up to signs: compared through reconstruction
reg("qr_recon", 1, _gen_qr, lambda a, p: a, _cu_qr_recon, exact=False, weight=3, tags=("linalg", "qr"))
reg("svd_recon", 1, _gen_svd, lambda a, p: a, _cu_svd_recon, exact=False, weight=2, tags=("linalg", "qr"))
reg("svd_s", 1, _gen_svd, lambda a, p: np.linalg.svd(a, compute_uv=False),
    lambda a, p: _linalg().svd(a, full_matrices=False)[1], exact=False, weight=1, tags=("linalg", "qr"))

reg("svd", 1, _gen_svd, _np_svd, lambda a, p: list(_linalg().svd(a, full_matrices=False)), exact=False,
    nout=3, weight=2, tags=("linalg", "multi", "qr"))


# ---- misc ---------------------------------------------------------------------------------

def _gen_searchsorted(tp, a, b):
    if a.ndim != 1 or b.ndim != 1 or not _isnum(a) or not _isnum(b) or not _np_result_ok(a, b):
        return None
    if a.size == 0 or b.size == 0:
        return None
    if _isfloat(a) and (np.isnan(a).any() or np.isnan(b).any()):
        return None
    return dict(side=tp.choice(["left", "right"]))


reg("searchsorted", 2, _gen_searchsorted, lambda a, b, p: np.searchsorted(np.sort(a), b, side=p["side"]),
    lambda a, b, p: _searchsorted_cu(a, b, p), weight=3, tags=("search",))


def _searchsorted_cu(a, b, p):
    # x1 must be sorted: sort eagerly on the NumPy side is not possible for a lazy
    # array, so the program applies cumulative-max-free trick: the generator only
    # emits searchsorted on *inputs* that were sorted at data creation (flag)
    return _xp().searchsorted(a, b, side=p["side"])


def _gen_pad(tp, a):
    if a.ndim == 0:
        return None
    if a.size == 0 and not tp.coin(1, 8):
        return None  # known finding zero-length-dim-zerodivision: keep the raw construct in a small fraction
    # cubed.pad supports padding on one axis only with mode constant/symmetric
    ax = tp.randint(0, a.ndim - 1)
    pw = [[0, 0] for _ in range(a.ndim)]
    pw[ax] = [tp.randint(0, 2), tp.randint(0, 2)]
    return dict(pad_width=pw, mode=tp.choice(["constant", "symmetric"]))


reg("pad", 1, _gen_pad, lambda a, p: np.pad(a, [tuple(x) for x in p["pad_width"]], mode=p["mode"]),
    lambda a, p: _cubed().pad(a, tuple(tuple(x) for x in p["pad_width"]), mode=p["mode"]), weight=2, tags=("manip",))


def _mb_double(x):
    return x * 2


def _mb_blockid(x, block_id=None):
    return x + sum(block_id)


def _gen_map_blocks(tp, a):
    if not _isnum(a) or a.dtype.kind == "u":
        return None
    return dict(fn=tp.choice(["double", "double"]))


reg("map_blocks", 1, _gen_map_blocks, lambda a, p: a * 2,
    lambda a, p: _cubed().map_blocks(_mb_double, a, dtype=a.dtype), weight=3, tags=("elemwise",))


def _mb_add(x, y):
    return x + y


def _gen_map_blocks_np(tp, a):
    # a NumPy (non-cubed) operand in either position: map_blocks coerces it under the cubed operand's spec.
    # (a single-block constant, so that it broadcasts against every block of the cubed operand)
    if not _isnum(a) or a.dtype.kind == "u" or a.ndim == 0 or a.size == 0:
        return None
    return dict(first=tp.coin(1, 2), k=tp.randint(-2, 3))


def _np_operand(a, p):
    return np.full((1,) * a.ndim, p["k"], dtype=a.dtype)


reg("map_blocks_np", 1, _gen_map_blocks_np, lambda a, p: (_np_operand(a, p) + a) if p["first"] else (a + _np_operand(a, p)),
    lambda a, p: (_cubed().map_blocks(_mb_add, _np_operand(a, p), a, dtype=a.dtype, chunks=a.chunks) if p["first"]
                  else _cubed().map_blocks(_mb_add, a, _np_operand(a, p), dtype=a.dtype, chunks=a.chunks)),
    weight=2, tags=("elemwise",))


def _ov_sum(x):
    # sum of each element with its two neighbours along axis 0 (trimmed by map_overlap)
    return x + np.roll(x, 1, axis=0) + np.roll(x, -1, axis=0)


def _gen_map_overlap(tp, a):
    if a.ndim == 0 or not _isnum(a) or a.dtype.kind == "u" or a.shape[0] < 1 or a.size == 0:
        return None
    if _isfloat(a) and np.isnan(a).any():
        return None
    return {}


def _np_map_overlap(a, p):
    z = np.zeros((1,) + a.shape[1:], dtype=a.dtype)
    ap = np.concatenate([z, a, z], axis=0)
    return (ap[1:-1] + ap[:-2] + ap[2:]).astype(a.dtype)


reg("map_overlap", 1, _gen_map_overlap, _np_map_overlap,
    lambda a, p: _cubed().map_overlap(_ov_sum, a, dtype=a.dtype, chunks=a.chunks,
                                      depth={0: 1}, boundary={0: 0}, trim=True),
    weight=2, tags=("overlap",))


def _gen_groupby(tp, a):
    if a.ndim == 0 or a.dtype.kind != "f" or a.size == 0 or np.isnan(a).any():
        return None
    ax = tp.randint(0, a.ndim - 1)
    n = a.shape[ax]
    ng = tp.randint(1, 3)
    labels = [tp.randint(0, ng - 1) for _ in range(n)]
    return dict(axis=ax, labels=labels, ng=ng, fn=tp.choice(["sum", "mean"]))


def _np_groupby(a, p):
    lab = np.asarray(p["labels"])
    outs = []
    for g in range(p["ng"]):
        sel = np.take(a, np.nonzero(lab == g)[0], axis=p["axis"])
        if p["fn"] == "sum":
            outs.append(sel.sum(axis=p["axis"]))
        else:
            with np.errstate(all="ignore"):
                outs.append(sel.sum(axis=p["axis"]) / sel.shape[p["axis"]])
    return np.stack(outs, axis=p["axis"])


def _gb_mean_func(a, by, axis, intermediate_dtype, num_groups):
    import numpy_groupies as npg

    dtype = dict(intermediate_dtype)
    n = npg.aggregate(by, a, func="len", dtype=dtype["n"], axis=axis, size=num_groups)
    total = npg.aggregate(by, a, func="sum", dtype=dtype["total"], axis=axis, size=num_groups)
    return {"n": n, "total": total}


def _gb_mean_combine(a, axis, dummy_axis, dtype, keepdims):
    dtype = dict(dtype)
    n = np.sum(a["n"], dtype=dtype["n"], axis=dummy_axis, keepdims=keepdims)
    total = np.sum(a["total"], dtype=dtype["total"], axis=dummy_axis, keepdims=keepdims)
    return {"n": n, "total": total}


def _gb_mean_aggregate(a, **kwargs):
    with np.errstate(all="ignore"):
        return np.divide(a["total"], a["n"])


def _gb_sum_func(a, by, axis, intermediate_dtype, num_groups):
    import numpy_groupies as npg

    return npg.aggregate(by, a, func="sum", dtype=intermediate_dtype, axis=axis, size=num_groups)


def _gb_sum_combine(a, axis, dummy_axis, dtype, keepdims):
    return np.sum(a, dtype=dtype, axis=dummy_axis, keepdims=keepdims)


def _cu_groupby(a, p):
    import cubed.array_api as xp
    from cubed.core.groupby import groupby_reduction

    lab = xp.asarray(np.asarray(p["labels"], dtype=np.int64), chunks=max(1, a.chunksize[p["axis"]]), spec=a.spec)
    if p["fn"] == "sum":
        return groupby_reduction(a, lab, func=_gb_sum_func, combine_func=_gb_sum_combine, axis=p["axis"],
                                 intermediate_dtype=np.dtype("float64"), dtype=np.dtype("float64"), num_groups=p["ng"])
    idt = [("n", np.int64), ("total", np.float64)]
    return groupby_reduction(a, lab, func=_gb_mean_func, combine_func=_gb_mean_combine,
                             aggregate_func=_gb_mean_aggregate, axis=p["axis"], intermediate_dtype=idt,
                             dtype=np.dtype("float64"), num_groups=p["ng"])


reg("groupby", 1, _gen_groupby, _np_groupby, _cu_groupby, exact=False, weight=2, tags=("groupby",))


# ---- creation (0-ary) ------------------------------------------------------------------------------

def _gen_creation(tp):
    fn = tp.choice(["ones", "zeros", "full", "arange", "eye", "linspace", "random", "ones_like?"])
    from gen.programs import gen_chunks as gc
    from gen.programs import gen_shape as gs

    if fn == "ones_like?":
        fn = "ones"
    if fn in ("ones", "zeros", "full"):
        shape = gs(tp, 10)
        return dict(fn=fn, shape=shape, chunks=gc(tp, shape), dtype=tp.choice(["int64", "float64", "bool", "int32"]), fill=tp.randint(-3, 5))
    if fn == "arange":
        start, step = tp.randint(-3, 3), tp.choice([1, 1, 2, 3, -1])
        n = tp.randint(0, 12)
        return dict(fn=fn, start=start, stop=start + step * n, step=step, chunks=tp.randint(1, 5), dtype=tp.choice(["int64", "float64"]))
    if fn == "eye":
        return dict(fn=fn, n=tp.randint(1, 8), m=tp.choice([None, tp.randint(1, 8)]), k=tp.randint(-2, 2), chunks=tp.randint(1, 4))
    if fn == "linspace":
        return dict(fn=fn, start=tp.randint(-3, 3), stop=tp.randint(4, 9), num=tp.randint(1, 12), chunks=tp.randint(1, 5), endpoint=tp.coin(2, 3))
    shape = gs(tp, 10, allow_zero=False)
    return dict(fn="random", shape=shape, chunks=gc(tp, shape))


def _np_creation(p):
    fn = p["fn"]
    if fn == "ones":
        return np.ones(p["shape"], dtype=p["dtype"])
    if fn == "zeros":
        return np.zeros(p["shape"], dtype=p["dtype"])
    if fn == "full":
        return np.full(p["shape"], p["fill"], dtype=p["dtype"])
    if fn == "arange":
        return np.arange(p["start"], p["stop"], p["step"], dtype=p["dtype"])
    if fn == "eye":
        return np.eye(p["n"], p["m"], k=p["k"])
    if fn == "linspace":
        return np.linspace(p["start"], p["stop"], p["num"], endpoint=p["endpoint"])
    # random: no oracle for the values; NumPy side produces a sentinel of the right shape
    return np.full(p["shape"], np.nan)


def _cu_creation(p, spec):
    xp = _xp()
    fn = p["fn"]
    if fn in ("ones", "zeros"):
        return getattr(xp, fn)(tuple(p["shape"]), dtype=getattr(xp, p["dtype"]), chunks=tuple(p["chunks"]), spec=spec)
    if fn == "full":
        fv = bool(p["fill"]) if p["dtype"] == "bool" else (float(p["fill"]) if p["dtype"].startswith("float") else p["fill"])
        return xp.full(tuple(p["shape"]), fv, dtype=getattr(xp, p["dtype"]), chunks=tuple(p["chunks"]), spec=spec)
    if fn == "arange":
        return xp.arange(p["start"], p["stop"], p["step"], dtype=getattr(xp, p["dtype"]), chunks=p["chunks"], spec=spec)
    if fn == "eye":
        return xp.eye(p["n"], p["m"], k=p["k"], chunks=p["chunks"], spec=spec)
    if fn == "linspace":
        return xp.linspace(p["start"], p["stop"], p["num"], endpoint=p["endpoint"], chunks=p["chunks"], spec=spec)
    import cubed.random

    return cubed.random.random(tuple(p["shape"]), chunks=tuple(p["chunks"]), spec=spec)


reg("create", 0, lambda tp: _gen_creation(tp), lambda p: _np_creation(p), None, weight=4, tags=("create",))


# ---------------------------------------------------------------------------
# interpretation
# ---------------------------------------------------------------------------

INEXACT_CREATE = {"linspace", "random"}
NO_DIRECT_ORACLE = {"qr", "svd"}  # factors are unique only up to signs
# discontinuous functions amplify legitimate rounding differences: only applied to exact values
DISCONTINUOUS = {"isin", "copysign", "floor", "ceil", "trunc", "sign", "equal", "not_equal", "less", "greater_equal", "astype",
                 "argred", "where", "searchsorted", "count_nonzero", "any", "all", "scalar_op", "isnan", "isfinite",
                 "logical_not", "logical_and", "logical_or", "logical_xor", "remainder", "floor_divide", "groupby",
                 }


# periodic functions of a large inexact argument are ill-conditioned (the argument reduction turns a relative rounding
# difference of 1e-16 into an absolute one of |x| * 1e-16): only applied to exact values or to moderate magnitudes
PERIODIC = {"sin", "cos", "tan"}
PERIODIC_MAX_INEXACT = 1.0e4


def _ill_conditioned(name, sh, args):
    if name not in PERIODIC:
        return False
    for i in args:
        if sh.exact[i] and not sh.random[i]:
            continue
        v = np.asarray(sh.values[i])
        if v.size and v.dtype.kind in "fc":
            with np.errstate(all="ignore"):
                m = np.abs(v[np.isfinite(v)])
            if m.size and float(m.max()) > PERIODIC_MAX_INEXACT:
                return True
    return False


class Shadow:
    """NumPy evaluation of a program."""

    def __init__(self, prog):
        self.prog = prog
        self.values: list = []
        self.exact: list[bool] = []
        self.random: list[bool] = []  # value has no oracle (depends on random data)
        self.lowprec: list[bool] = []  # a float32 value took part upstream: compare with float32 tolerance
        self.producer: list[int] = []  # step index (-1 for inputs)

    def add_input(self, inp):
        a = make_data(inp["shape"], inp["dtype"], inp["data_seed"], inp.get("nan", False))
        if inp.get("sorted"):
            a = np.sort(a, axis=-1) if a.ndim else a
        self.values.append(a)
        self.exact.append(True)
        self.random.append(False)
        self.lowprec.append(a.dtype == np.float32)
        self.producer.append(-1)
        return a

    def run_step(self, si, step):
        op = OPS[step["op"]]
        p = step.get("p", {})
        if op.arity == 0:
            r = op.np_fn(p)
            ex = p["fn"] not in INEXACT_CREATE
            rnd = p["fn"] == "random"
            lp = False
        else:
            args = [self.values[i] for i in step["args"]]
            with np.errstate(all="ignore"):
                r = op.np_fn(*args, p)
            ex = op.exact and all(self.exact[i] for i in step["args"])
            rnd = any(self.random[i] for i in step["args"]) or step["op"] in NO_DIRECT_ORACLE
            lp = any(self.lowprec[i] for i in step["args"])
        rs = r if op.nout > 1 else [r]
        if len(rs) != op.nout:
            raise ValueError("nout mismatch")
        for x in rs:
            x = np.asarray(x)
            self.values.append(x)
            self.exact.append(ex)
            self.random.append(rnd)
            self.lowprec.append(lp or x.dtype == np.float32)
            self.producer.append(si)
        return rs


def shadow_of(prog) -> Shadow:
    sh = Shadow(prog)
    for inp in prog["inputs"]:
        sh.add_input(inp)
    for si, st in enumerate(prog["steps"]):
        sh.run_step(si, st)
    return sh


class Built:
    """cubed evaluation (lazy) of a program."""

    def __init__(self):
        self.values: list = []  # cubed arrays or None (declined / skipped)
        self.declines: list[Decline] = []
        self.skipped: list[int] = []


def build_inputs(prog, spec, source_store=None, reuse_sources=False):
    """Create the cubed input arrays. ``from_zarr`` inputs are written to
    ``source_store`` with plain Zarr before anything is simulated."""
    import cubed
    import cubed.array_api as xp
    import zarr

    vals = []
    for k, inp in enumerate(prog["inputs"]):
        a = make_data(inp["shape"], inp["dtype"], inp["data_seed"], inp.get("nan", False))
        if inp.get("sorted"):
            a = np.sort(a, axis=-1) if a.ndim else a
        chunks = tuple(inp["chunks"])
        src = inp["src"]
        if a.ndim == 0 or a.size == 0:
            src = "asarray"
        if src == "from_zarr" and source_store is not None:
            if not reuse_sources:
                za = zarr.create_array(store=source_store, name=f"src-{k}", shape=a.shape, dtype=a.dtype,
                                       chunks=tuple(max(c, 1) for c in chunks))
                za[...] = a
            vals.append(cubed.from_zarr(source_store, path=f"src-{k}", spec=spec))
        elif src == "from_array":
            vals.append(cubed.from_array(a, chunks=chunks, spec=spec))
        else:
            vals.append(xp.asarray(a, chunks=chunks, spec=spec))
    return vals


def build(prog, spec, source_store=None, on_step=None, reuse_sources=False) -> Built:
    b = Built()
    b.values = build_inputs(prog, spec, source_store, reuse_sources=reuse_sources)
    for si, st in enumerate(prog["steps"]):
        op = OPS[st["op"]]
        p = st.get("p", {})
        try:
            if op.arity == 0:
                r = _cu_creation(p, spec)
            else:
                args = [b.values[i] for i in st["args"]]
                if any(a is None for a in args):
                    b.skipped.append(si)
                    b.values.extend([None] * op.nout)
                    continue
                r = op.cu_fn(*args, p)
            rs = list(r) if op.nout > 1 else [r]
            if len(rs) != op.nout:
                raise RuntimeError(f"cubed returned {len(rs)} outputs, expected {op.nout}")
            b.values.extend(rs)
        except Exception as e:  # noqa: BLE001 - classification is the caller's job
            b.declines.append(Decline(si, e))
            b.values.extend([None] * op.nout)
        if on_step is not None:
            on_step(si, st)
    return b


# ---------------------------------------------------------------------------
# comparison
# ---------------------------------------------------------------------------

def compare(got, want, exact=True, lowprec=False):
    """None if equal, else a short description."""
    got = np.asarray(got)
    want = np.asarray(want)
    if got.shape != want.shape:
        return f"shape {got.shape} != expected {want.shape}"
    if got.size == 0:
        return None
    if got.dtype.fields is not None:
        return f"structured result dtype {got.dtype}"
    if want.dtype.kind in "fc" or got.dtype.kind in "fc":
        w = want.astype(np.complex128 if (want.dtype.kind == "c" or got.dtype.kind == "c") else np.float64)
        g = got.astype(w.dtype)
        finite = np.isfinite(w)
        small = np.all(np.abs(w[finite]) < 2.0**20) if finite.any() else True
        if exact and small and finite.all():
            ok = np.array_equal(g, w)
        else:
            with np.errstate(all="ignore"):
                ok = np.allclose(g, w, rtol=1e-4 if (lowprec or want.dtype == np.float32 or got.dtype == np.float32) else 1e-7,
                                 atol=1e-4 if lowprec else 1e-6, equal_nan=True)
    else:
        ok = np.array_equal(got, want)
    if ok:
        return None
    try:
        bad = np.argwhere(~np.isclose(got.astype(np.float64), want.astype(np.float64), equal_nan=True))
        if len(bad) == 0:
            with np.errstate(all="ignore"):
                md = np.nanmax(np.abs(got.astype(np.float64) - want.astype(np.float64)))
            return f"values differ only beyond the exact-comparison tolerance (max abs difference {md:.3g})"
        first = tuple(int(i) for i in bad[0]) if len(bad) else ()
        return (f"{len(bad)} of {want.size} elements differ; first at {first}: "
                f"got {got[first]!r} expected {want[first]!r}")
    except Exception:  # noqa: BLE001
        return "values differ"


# ---------------------------------------------------------------------------
# generation
# ---------------------------------------------------------------------------

PROFILES = {
    "general": {},
    "rechunk": {"rechunk": 30, "merge_chunks": 6, "getitem": 6, "concat": 6, "reshape": 4},
    "multi": {"unstack2": 20, "broadcast_arrays": 8, "qr": 6, "svd": 3, "qr_recon": 6, "svd_recon": 3, "stack": 8, "add": 10},
    "reduce": {"sum": 14, "mean": 8, "argred": 8, "var": 6, "cumulative": 8, "nanred": 4},
    "elemwise": {"add": 12, "multiply": 8, "negative": 6, "where": 6, "scalar_op": 6, "astype": 4},
    "hostile": {"qr": 8, "svd": 5, "qr_recon": 8, "svd_recon": 4, "cumulative": 12, "reshape": 10, "concat": 8, "stack": 8, "groupby": 6,
                "var": 8, "pad": 5, "map_overlap": 5, "merge_chunks": 5, "getitem": 10, "roll": 6, "rechunk": 8,
                "argred": 6, "nanred": 5, "take": 5, "tile": 4, "repeat": 4, "broadcast_to": 4, "searchsorted": 4,
                "unstack2": 5, "diff": 4},
}


def generate_program(tp: Tape, max_steps=8, max_extent=12, profile="general", n_inputs=None,
                     allow_zero=True, exclude_tags=(), exclude_ops=(), srcs=("asarray", "from_array", "from_zarr"),
                     dtypes=None, max_outputs=3, min_steps=1, inputs=None, only_ops=None, size_cap=6000,
                     result_cap=20000):
    n_in = n_inputs if n_inputs is not None else tp.weighted([(1, 4), (2, 5), (3, 2)])
    prog = dict(inputs=[], steps=[], outputs=[])
    sh = Shadow(prog)
    base_shape = gen_shape(tp, max_extent, allow_zero=allow_zero)
    if inputs is not None:
        n_in = 0
        for inp in inputs:
            prog["inputs"].append(inp)
            sh.add_input(inp)
    for k in range(n_in):
        # related shapes make binary ops likely to be applicable
        rel = tp.weighted([("same", 6), ("bcast", 2), ("matmul", 2), ("fresh", 2)]) if k > 0 else "same"
        if rel == "same":
            shape = list(base_shape)
        elif rel == "bcast":
            shape = [s if tp.coin(2, 3) else 1 for s in base_shape][tp.randint(0, max(0, len(base_shape) - 1)) if tp.coin(1, 3) else 0:]
        elif rel == "matmul" and len(base_shape) >= 1:
            shape = [base_shape[-1], tp.randint(1, 6)]
        else:
            shape = gen_shape(tp, max_extent, allow_zero=allow_zero)
        dt = None
        if dtypes:
            dt = tp.choice(dtypes)
        elif k > 0 and tp.coin(2, 3):
            dt = prog["inputs"][0]["dtype"]
        inp = gen_input(tp, max_extent, shape=shape, dtype=dt, srcs=srcs)
        prog["inputs"].append(inp)
        sh.add_input(inp)
    weights = {name: op.weight for name, op in OPS.items()
               if not (set(op.tags) & set(exclude_tags)) and name not in exclude_ops
               and (only_ops is None or name in only_ops)}
    for name, w in PROFILES.get(profile, {}).items():
        if name in weights:
            weights[name] = w
    names = sorted(weights)
    n_steps = tp.randint(min_steps, max_steps)
    attempts = 0
    while len(prog["steps"]) < n_steps and attempts < n_steps * 12:
        attempts += 1
        name = tp.weighted([(n, weights[n]) for n in names])
        op = OPS[name]
        nvals = len(sh.values)
        if op.arity == 0:
            p = op.gen(tp)
            args = []
        else:
            # prefer recent values so that chains form; allow repeats (same array twice)
            args = []
            for _ in range(op.arity):
                if tp.coin(1, 2):
                    args.append(nvals - 1 - tp.below(min(3, nvals)))
                else:
                    args.append(tp.below(nvals))
            if any(sh.values[i].size > size_cap for i in args):
                continue
            try:
                p = op.gen(tp, *[sh.values[i] for i in args])
            except Exception:  # noqa: BLE001
                p = None
        if p is None:
            continue
        if name in DISCONTINUOUS and any(not sh.exact[i] or sh.random[i] for i in args):
            continue
        if _ill_conditioned(name, sh, args):
            continue
        step = dict(op=name, args=args, p=p)
        if name == "searchsorted":
            # x1 must be sorted: only allowed directly on an input, which is then flagged sorted
            i0 = args[0]
            if i0 >= len(prog["inputs"]) or any(i0 in s["args"] for s in prog["steps"]):
                continue
            prog["inputs"][i0]["sorted"] = True
            sh.values[i0] = np.sort(sh.values[i0])
        try:
            import warnings

            with warnings.catch_warnings():
                warnings.simplefilter("ignore")
                rs = sh.run_step(len(prog["steps"]), step)
        except Exception:  # noqa: BLE001 - NumPy refuses: not a valid expression
            del sh.values[nvals:], sh.exact[nvals:], sh.random[nvals:], sh.producer[nvals:], sh.lowprec[nvals:]
            continue
        if any(np.asarray(r).size > result_cap or np.asarray(r).ndim > 4 for r in rs):
            del sh.values[nvals:], sh.exact[nvals:], sh.random[nvals:], sh.producer[nvals:], sh.lowprec[nvals:]
            continue
        prog["steps"].append(step)
    # outputs: the last value plus a few others
    nvals = len(sh.values)
    n_in = len(prog["inputs"])
    cand = list(range(n_in, nvals)) or list(range(nvals))
    outs = {cand[-1]}
    for _ in range(tp.randint(0, max_outputs - 1)):
        outs.add(tp.choice(cand))
    prog["outputs"] = sorted(outs)
    return prog


def prune(prog):
    """Drop steps that no requested output depends on (for shrinking)."""
    n_in = len(prog["inputs"])
    # map value id -> step index
    owner = {}
    vid = n_in
    for si, st in enumerate(prog["steps"]):
        for _ in range(OPS[st["op"]].nout):
            owner[vid] = si
            vid += 1
    need = set()
    stack = [owner[o] for o in prog["outputs"] if o in owner]
    while stack:
        si = stack.pop()
        if si in need:
            continue
        need.add(si)
        for a in prog["steps"][si]["args"]:
            if a in owner:
                stack.append(owner[a])
    return remove_steps(prog, [si for si in range(len(prog["steps"])) if si not in need])


def remove_steps(prog, drop):
    """Remove steps (by index); returns None if a remaining step or output depends on them."""
    import copy

    drop = set(drop)
    if not drop:
        return copy.deepcopy(prog)
    n_in = len(prog["inputs"])
    newid = {i: i for i in range(n_in)}
    vid = n_in
    nid = n_in
    steps = []
    for si, st in enumerate(prog["steps"]):
        nout = OPS[st["op"]].nout
        if si in drop:
            vid += nout
            continue
        if any(a not in newid for a in st["args"]):
            return None
        s2 = copy.deepcopy(st)
        s2["args"] = [newid[a] for a in st["args"]]
        steps.append(s2)
        for k in range(nout):
            newid[vid + k] = nid + k
        vid += nout
        nid += nout
    outs = [newid[o] for o in prog["outputs"] if o in newid]
    if not outs:
        return None
    p2 = copy.deepcopy(prog)
    p2["steps"] = steps
    p2["outputs"] = sorted(set(outs))
    return p2


def shrink_program(prog):
    """Candidate smaller programs."""
    import copy

    p0 = prune(prog)
    if p0 is not None and len(p0["steps"]) < len(prog["steps"]):
        yield p0
    # fewer outputs
    if len(prog["outputs"]) > 1:
        for o in prog["outputs"]:
            c = copy.deepcopy(prog)
            c["outputs"] = [x for x in prog["outputs"] if x != o]
            c2 = prune(c)
            yield c2 if c2 is not None else c
    # output an earlier value instead
    n_in = len(prog["inputs"])
    nvals = n_in + sum(OPS[s["op"]].nout for s in prog["steps"])
    if len(prog["outputs"]) == 1:
        for v in range(nvals - 1, n_in - 1, -1):
            if v != prog["outputs"][0]:
                c = copy.deepcopy(prog)
                c["outputs"] = [v]
                c2 = prune(c)
                if c2 is not None:
                    yield c2
    # drop one step
    for si in range(len(prog["steps"]) - 1, -1, -1):
        c = remove_steps(prog, [si])
        if c is not None:
            yield c
    # replace a unary step by identity is covered by dropping + rewiring: rewire users to the arg
    for si, st in enumerate(prog["steps"]):
        op = OPS[st["op"]]
        if op.nout == 1 and len(st["args"]) >= 1:
            vid = n_in + sum(OPS[s["op"]].nout for s in prog["steps"][:si])
            for a in st["args"]:
                c = copy.deepcopy(prog)
                for s2 in c["steps"][si + 1:]:
                    s2["args"] = [a if x == vid else x for x in s2["args"]]
                c["outputs"] = sorted({a if x == vid else x for x in c["outputs"]})
                c2 = remove_steps(c, [si])
                if c2 is not None and c2 != prog:
                    yield c2
    # shrink inputs: smaller extents, single chunks, simpler dtype / source
    for k, inp in enumerate(prog["inputs"]):
        for d, s in enumerate(inp["shape"]):
            if s > 2:
                c = copy.deepcopy(prog)
                c["inputs"][k]["shape"][d] = max(2, s // 2)
                c["inputs"][k]["chunks"][d] = min(c["inputs"][k]["chunks"][d], c["inputs"][k]["shape"][d])
                yield c
                c = copy.deepcopy(prog)
                c["inputs"][k]["shape"][d] = s - 1
                c["inputs"][k]["chunks"][d] = min(c["inputs"][k]["chunks"][d], s - 1)
                yield c
        for d, ch in enumerate(inp["chunks"]):
            if ch != inp["shape"][d] and inp["shape"][d] > 0:
                c = copy.deepcopy(prog)
                c["inputs"][k]["chunks"][d] = inp["shape"][d]
                yield c
        if inp["src"] != "asarray":
            c = copy.deepcopy(prog)
            c["inputs"][k]["src"] = "asarray"
            yield c
        if inp["dtype"] not in ("float64", "int64"):
            c = copy.deepcopy(prog)
            c["inputs"][k]["dtype"] = "int64"
            yield c
        if inp.get("nan"):
            c = copy.deepcopy(prog)
            c["inputs"][k]["nan"] = False
            yield c


def valid_program(prog) -> bool:
    """NumPy accepts every step (used to filter shrink candidates)."""
    try:
        import warnings

        with warnings.catch_warnings():
            warnings.simplefilter("ignore")
            sh = shadow_of(prog)
        for st in prog["steps"]:
            if st["op"] in DISCONTINUOUS and any(not sh.exact[i] or sh.random[i] for i in st["args"]):
                return False
            if _ill_conditioned(st["op"], sh, st["args"]):
                return False
        return all(o < len(sh.values) for o in prog["outputs"])
    except Exception:  # noqa: BLE001
        return False


def program_signature(prog):
    return [(s["op"], len(s["args"])) for s in prog["steps"]], [(tuple(i["shape"]), tuple(i["chunks"]), i["dtype"]) for i in prog["inputs"]]
