"""Store / to_zarr scenarios (shared by C05 and C11).

A scenario = a generated program whose values are the sources, plus a list of
(source, target, region) pairs and the API form used to store them.
"""
from __future__ import annotations

import numpy as np

from gen import programs as G
from sim.tape import Tape

SENTINEL = 77


def gen_target(tp: Tape, shape, chunks_hint, allow_new=True, allow_region=True):
    """Target description for a source of the given shape."""
    ndim = len(shape)
    kind = tp.weighted([("new_store", 3 if allow_new else 0), ("new_path", 3 if allow_new else 0),
                        ("existing", 8)])
    t = dict(kind=kind)
    if kind != "existing":
        return t
    # chunking of the existing array
    ck = tp.weighted([("same", 5), ("different", 4), ("multiple", 2)])
    t["chunking"] = ck
    if ck == "different":
        t["chunks"] = G.gen_chunks(tp, shape)
    elif ck == "multiple":
        t["mult"] = [tp.randint(1, 3) for _ in range(ndim)]
    t["sharded"] = tp.coin(1, 5)
    if t["sharded"]:
        t["shard_mult"] = [tp.randint(1, 3) for _ in range(ndim)]
    # region
    rk = tp.weighted([("none", 6), ("full", 2 if allow_region else 0), ("aligned", 6 if allow_region else 0),
                      ("misaligned", 2 if allow_region else 0), ("wrongshape", 1 if allow_region else 0)])
    t["region"] = rk
    if rk in ("aligned", "misaligned", "wrongshape"):
        t["before"] = [tp.randint(0, 2) for _ in range(ndim)]  # in target chunks
        t["after"] = [tp.randint(0, 2) for _ in range(ndim)]
        # a few extra elements after the region: the region's stop may then fall inside the last chunk
        t["tail"] = [tp.choice([0, 0, 0, 1, 2, 3]) for _ in range(ndim)]
        if rk == "misaligned":
            t["shift"] = [tp.randint(0, 2) for _ in range(ndim)]
            if not any(t["shift"]):
                t["shift"][tp.below(ndim)] = 1
        if rk == "wrongshape":
            t["delta"] = [tp.choice([0, 1, -1]) for _ in range(ndim)]
            if not any(t["delta"]):
                t["delta"][tp.below(ndim)] = 1
    return t


def generate_scenario(tp: Tape, tier: str, profile=None):
    profile = profile or tp.weighted([("general", 4), ("rechunk", 4), ("elemwise", 3), ("multi", 2)])
    for _ in range(8):
        prog = G.generate_program(tp, max_steps=5 if tier == "quick" else 9, max_extent=10, profile=profile,
                                  allow_zero=False, dtypes=["int64", "float64", "int32", "float32"],
                                  exclude_tags=("qr", "groupby"), exclude_ops=("create",), max_outputs=1)
        sh = G.shadow_of(prog)
        # candidate sources: numeric, >= 1 dim, non-empty
        cands = [i for i, v in enumerate(sh.values)
                 if v.ndim >= 1 and v.size > 0 and v.dtype.kind in "iuf" and not sh.random[i]]
        if cands:
            break
    else:
        raise RuntimeError("could not generate a program with a storable value")
    n_pairs = tp.weighted([(1, 5), (2, 4), (3, 2)])
    api = tp.weighted([("to_zarr_eager", 3), ("to_zarr_lazy", 2), ("store_eager", 4), ("store_lazy", 3)])
    if api.startswith("to_zarr"):
        n_pairs = 1
    pairs = []
    for k in range(n_pairs):
        if k > 0 and tp.coin(1, 2):
            src = pairs[tp.below(len(pairs))]["src"]  # repeated source
        else:
            src = cands[len(cands) - 1 - tp.below(min(4, len(cands)))]
        v = sh.values[src]
        t = gen_target(tp, v.shape, None, allow_new=True, allow_region=True)
        if t["kind"] == "new_path" and not api.startswith("to_zarr"):
            t["kind"] = "new_store"
        pairs.append(dict(src=src, target=t))
    prog["outputs"] = sorted({p["src"] for p in pairs})
    return dict(prog=prog, pairs=pairs, api=api)


class TargetInfo:
    def __init__(self):
        self.store = None
        self.path = None
        self.zarr = None  # existing zarr.Array (or None)
        self.region = None  # tuple of slices or None
        self.expect_reject = False
        self.expected = None  # numpy array: expected final content (None if rejected/unknown)
        self.digest_before = None
        self.desc = None
        self.exact = True
        self.lowprec = False


def materialise_target(t, src_arr, src_np, sim, k):
    """Create the target for cubed array ``src_arr`` (NumPy value ``src_np``)."""
    import zarr

    from sim.store import SimStore

    ti = TargetInfo()
    ti.desc = t
    st = SimStore(name=f"tgt-{k}")
    sim.attach_store(st)
    ti.store = st
    shape = tuple(src_np.shape)
    if t["kind"] == "new_store":
        ti.expected = src_np
        return ti
    if t["kind"] == "new_path":
        ti.path = f"grp/arr-{k}"
        ti.expected = src_np
        return ti
    schunks = tuple(src_arr.chunksize)
    if t["chunking"] == "same":
        chunks = schunks
    elif t["chunking"] == "different":
        chunks = tuple(max(1, min(c, s)) for c, s in zip(t["chunks"], shape))
    else:
        chunks = tuple(max(1, c * m) for c, m in zip(schunks, t["mult"]))
    rk = t["region"]
    if rk in ("none", "full"):
        tshape = shape
        region = None if rk == "none" else tuple(slice(0, s) for s in shape)
    else:
        before = [b * c for b, c in zip(t["before"], chunks)]
        after = [a * c for a, c in zip(t["after"], chunks)]
        start = list(before)
        rshape = list(shape)
        if rk == "misaligned":
            start = [b + sft for b, sft in zip(before, t["shift"])]
        if rk == "wrongshape":
            rshape = [max(1, s + d) for s, d in zip(shape, t["delta"])]
        tail = t.get("tail") or [0] * len(shape)
        tshape = tuple(st_ + rs + a + tl for st_, rs, a, tl in zip(start, rshape, after, tail))
        region = tuple(slice(st_, st_ + rs) for st_, rs in zip(start, rshape))
    chunks = tuple(max(1, min(c, s)) for c, s in zip(chunks, tshape))
    kw = {}
    if t.get("sharded"):
        kw["shards"] = tuple(c * m for c, m in zip(chunks, t["shard_mult"]))
    st.sh.tracing = False
    try:
        za = zarr.create_array(store=st, shape=tshape, dtype=src_np.dtype, chunks=chunks, fill_value=0, **kw)
        za[...] = np.full(tshape, SENTINEL, dtype=src_np.dtype)
    finally:
        st.sh.tracing = True
    ti.zarr = za
    ti.region = region
    exp = np.full(tshape, SENTINEL, dtype=src_np.dtype)
    if region is None:
        exp[...] = src_np
    else:
        rs = tuple(r.stop - r.start for r in region)
        if rs == shape:
            exp[region] = src_np
        else:
            exp = None  # wrong shape: must be rejected
    ti.expected = exp
    ti.digest_before = st.digest()
    return ti


def region_is_safe(ti: TargetInfo, src_arr):
    """The property's notion of a region/shape that can be written safely: the region has
    the source's shape and starts/ends on target storage-chunk boundaries (or the array end)."""
    if ti.zarr is None:
        return True
    if ti.region is None:
        return True
    za = ti.zarr
    grid_chunks = za.shards if getattr(za, "shards", None) else za.chunks
    for r, c, n, s in zip(ti.region, grid_chunks, za.shape, src_arr.shape):
        if r.stop - r.start != s:
            return False
        if r.start % c != 0:
            return False
        if r.stop % c != 0 and r.stop != n:
            return False
    return True
