#!/bin/bash
# Run once after a fresh restore, offline. Nothing is compiled: the framework is
# pure Python and imports cubed from /repo's working tree (editable install in /venv).
set -e
cd "$(dirname "$0")"
export PYTHONDONTWRITEBYTECODE=1
mkdir -p evidence replays
/venv/bin/python - <<'PY'
import sys
sys.path.insert(0, "/verif")
import cubed, zarr, numpy, tenacity, aiostream, cloudpickle, networkx
assert cubed.__file__.startswith("/repo/"), cubed.__file__
from sim import core, loop, store, harness, monitor, tape  # noqa
from gen import programs  # noqa
print("setup ok: cubed", cubed.__version__, "zarr", zarr.__version__, "numpy", numpy.__version__)
PY
# smoke: the scheduler engine end to end
timeout 600 ./check C08 --runs 300 --procs 2 --quiet
