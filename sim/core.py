"""Sim: virtual clock, event heap, worker pool and the arming of seams.

One ``Sim`` object is one simulated execution.  It owns

* the virtual clock and the totally ordered event heap ``(time, seq)``,
* the ``SimPool`` that replaces ``ThreadPoolExecutor``/``ProcessPoolExecutor``
  in ``cubed.runtime.executors.local`` (decides when each submitted job starts,
  reads, commits and completes, and executes the job's Python code itself),
* the schedule tape from which every such decision is drawn,
* the event log.
"""
from __future__ import annotations

import asyncio
import concurrent.futures as cf
import contextlib
import hashlib
import heapq
import io
import sys
import threading

from . import store as simstore
from .loop import OneShotPolicy, SimHang, SimStepLimit, VirtualLoop
from .tape import Tape

CURRENT: "Sim | None" = None

_POLICY = None


def _install_policy():
    global _POLICY
    if _POLICY is None:
        # Zarr's private IO loop must exist before the policy can ever hand out
        # a VirtualLoop (see DESIGN.md 2.2)
        import zarr.core.sync

        zarr.core.sync._get_loop()
        _POLICY = OneShotPolicy()
        asyncio.set_event_loop_policy(_POLICY)
    return _POLICY


DEFAULT_CFG = dict(
    mode="atomic",  # atomic | two_phase | spread
    dur="grid",  # zero | grid | heavy
    start_jitter=0,  # 0/1
    coalesce=1,  # 0: never, 1: p=1/2, 2: always run same-instant events together
    eager=0,  # deliver due events even when asyncio has ready callbacks
    tie_sim_first=1,
    straggle_num=0,  # straggler probability numerator over 64
    zombie_num=0,  # zombie re-execution probability numerator over 16
    zombie_late=0,  # 1: zombies may land far in the future (after downstream ops)
    shuffle_writes=0,  # spread mode: a task's buffered writes become durable in a seeded order
    max_steps=400_000,
    max_vtime=1.0e7,
)


class Job:
    __slots__ = (
        "jid", "fn", "args", "kwargs", "cfut", "label", "state", "overlays", "writes",
        "result", "exc", "extra_duration", "t_submit", "t_start", "t_done", "pool",
        "attempts", "zombie_of", "peak_mem",
    )

    def __init__(self, jid, fn, args, kwargs, pool):
        self.jid = jid
        self.fn = fn
        self.args = args
        self.kwargs = kwargs
        self.cfut = cf.Future()
        self.label = None
        self.state = "queued"
        self.overlays = {}
        self.writes = []  # ordered [(store, key, value-or-None)]
        self.result = None
        self.exc = None
        self.extra_duration = 0.0
        self.t_submit = None
        self.t_start = None
        self.t_done = None
        self.pool = pool
        self.attempts = 0
        self.zombie_of = None
        self.peak_mem = None


class _Overlay(dict):
    """Per-job, per-store write buffer that also records program order."""

    __slots__ = ("job", "store")

    def __init__(self, job, store):
        super().__init__()
        self.job = job
        self.store = store

    def __setitem__(self, key, value):
        dict.__setitem__(self, key, value)
        self.job.writes.append((self.store, key, value))


class Sim:
    def __init__(self, tape: Tape, cfg: dict | None = None):
        self.tape = tape
        self.cfg = dict(DEFAULT_CFG)
        if cfg:
            self.cfg.update(cfg)
        self.now = 0.0
        self._seq = 0
        self._heap: list = []
        self.loop: VirtualLoop | None = None
        self.events: list[tuple] = []  # (seq, t, kind, ...)
        self.jobs: list[Job] = []
        self.pools: list[SimPool] = []
        self.stores: list[simstore.SimStore] = []
        self.current_job: Job | None = None
        self.steps = 0
        self.counters: dict[str, int] = {}
        self.body_wrapper = None  # callable(job, thunk) -> result ; for tracemalloc etc.
        self.label_hook = None
        self.on_job_event = None  # callable(kind, job)
        self.stderr = io.StringIO()
        self.hung = False
        self.vtime_total = 0.0
        self.placement = None  # sim.remote.Placement: some job bodies run in a fresh interpreter

    # -- bookkeeping -------------------------------------------------------
    def seq(self) -> int:
        self._seq += 1
        return self._seq

    def count(self, name: str, n: int = 1):
        self.counters[name] = self.counters.get(name, 0) + n

    def emit(self, kind: str, *data):
        self.events.append((self.seq(), self.now, kind) + data)

    def draw_hash(self) -> int:
        return self.tape.randint(0, (1 << 30) - 1)

    def tie_sim_first(self) -> bool:
        return bool(self.cfg["tie_sim_first"])

    def attach_store(self, st: simstore.SimStore):
        if st not in self.stores:
            self.stores.append(st)
        st.sh.clock = lambda: self.now
        st.sh.seq = self.seq

    # -- event heap ----------------------------------------------------------
    def schedule(self, t: float, fn, label: str = ""):
        if t < self.now:
            t = self.now
        heapq.heappush(self._heap, (t, self.seq(), label, fn))

    def next_event_time(self):
        return self._heap[0][0] if self._heap else None

    def advance_to(self, t: float):
        if t > self.now:
            self.now = t
        if self.now > self.cfg["max_vtime"]:
            raise SimStepLimit(f"virtual time cap exceeded at t={self.now}")

    def on_loop_iteration(self, n: int):
        self.steps += 1
        if self.steps > self.cfg["max_steps"]:
            raise SimStepLimit(f"step cap exceeded ({self.steps} loop iterations)")

    def _run_one(self):
        t, _, label, fn = heapq.heappop(self._heap)
        if t > self.now:
            self.now = t
        fn()

    def deliver_due(self, eager: bool):
        if eager and not self.cfg["eager"]:
            return
        if not self._heap or self._heap[0][0] > self.now:
            return
        self._run_one()
        co = self.cfg["coalesce"]
        while self._heap and self._heap[0][0] <= self.now:
            if co == 0:
                break
            if co == 1 and not self.tape.coin():
                break
            self._run_one()

    def drain(self, limit: int = 200_000):
        """Run every remaining simulator event (jobs a real pool would still
        execute after ``shutdown(wait=False)``; zombies)."""
        n = 0
        while self._heap:
            self._run_one()
            n += 1
            if n > limit:
                raise SimStepLimit("drain limit exceeded")
        return n

    # -- durations -------------------------------------------------------------
    def draw_duration(self) -> float:
        d = self.cfg["dur"]
        tp = self.tape
        if d == "zero":
            return 0.0
        if self.cfg["straggle_num"] and tp.coin(self.cfg["straggle_num"], 64):
            self.count("straggler_drawn")
            return float(tp.choice([30, 60, 200]))
        if d == "grid":
            return tp.randint(0, 4) * 0.25
        # heavy
        return tp.choice([0, 0.25, 0.5, 1, 1, 2, 3, 5, 8]) * 1.0

    def draw_small(self) -> float:
        if self.cfg["dur"] == "zero":
            return 0.0
        return self.tape.randint(0, 3) * 0.25

    # -- job execution ------------------------------------------------------------
    def run_body(self, job: Job, overlay: bool):
        """Execute the job's Python code now, on the simulator thread."""
        prev = self.current_job
        self.current_job = job
        for st in self.stores:
            sh = st.sh
            sh.current_job = job.label
            if overlay:
                ov = job.overlays.get(id(st))
                if ov is None:
                    ov = job.overlays[id(st)] = _Overlay(job, st)
                sh.overlay = ov
            else:
                sh.overlay = None
        try:
            pl = self.placement
            if pl is not None and pl.wants(job):
                call = lambda: pl.run(job)  # noqa: E731
            else:
                call = lambda: job.fn(*job.args, **job.kwargs)  # noqa: E731
            if self.body_wrapper is not None:
                job.result = self.body_wrapper(job, call)
            else:
                job.result = call()
            job.exc = None
        except (SimHang, SimStepLimit, KeyboardInterrupt, SystemExit):
            raise
        except BaseException as e:  # noqa: BLE001 - a task may raise anything
            job.exc = e
            job.result = None
            from .loop import quiesce_zarr_loop

            quiesce_zarr_loop()  # sibling chunk operations of the failed array call
        finally:
            for st in self.stores:
                st.sh.current_job = None
                st.sh.overlay = None
            self.current_job = prev


class SimPool:
    """Drop-in for ThreadPoolExecutor / ProcessPoolExecutor (submit/shutdown)."""

    def __init__(self, max_workers=None, mp_context=None, max_tasks_per_child=None, **kw):
        sim = CURRENT
        if sim is None:
            raise RuntimeError("SimPool created outside a simulation")
        self.sim = sim
        self.max_workers = max_workers or 1
        self.queue: list[Job] = []
        self.busy = 0
        self.shut = False
        self.submitted = 0
        sim.pools.append(self)
        sim.emit("pool_new", self.max_workers)

    # -- API -----------------------------------------------------------------
    def submit(self, fn, /, *args, **kwargs):
        sim = self.sim
        if self.shut:
            raise RuntimeError("cannot schedule new futures after shutdown")
        job = Job(len(sim.jobs), fn, args, kwargs, self)
        job.t_submit = sim.now
        sim.jobs.append(job)
        self.submitted += 1
        job.label = sim.label_hook(job) if sim.label_hook else ("job", job.jid)
        sim.emit("submit", job.jid, job.label)
        if sim.on_job_event:
            sim.on_job_event("submit", job)
        if self.busy < self.max_workers:
            self._dispatch(job)
        else:
            self.queue.append(job)
            sim.count("queued_behind_workers")
        return job.cfut

    def shutdown(self, wait=True, cancel_futures=False):
        self.shut = True
        self.sim.emit("pool_shutdown")

    def __enter__(self):
        return self

    def __exit__(self, *a):
        self.shutdown()

    # -- internals -----------------------------------------------------------
    def _dispatch(self, job: Job):
        sim = self.sim
        self.busy += 1
        delay = sim.draw_small() if sim.cfg["start_jitter"] else 0.0
        sim.schedule(sim.now + delay, lambda: self._start(job), "start")

    def _free_worker(self):
        self.busy -= 1
        while self.queue and self.busy < self.max_workers:
            self._dispatch(self.queue.pop(0))

    def _start(self, job: Job):
        sim = self.sim
        if not job.cfut.set_running_or_notify_cancel():
            job.state = "cancelled"
            sim.emit("cancelled_before_start", job.jid, job.label)
            sim.count("cancelled_before_start")
            self._free_worker()
            return
        job.state = "started"
        job.t_start = sim.now
        sim.emit("start", job.jid, job.label)
        if sim.on_job_event:
            sim.on_job_event("start", job)
        self._execute(job, report=True)

    def _execute(self, job: Job, report: bool):
        """Run body now; schedule commits and completion."""
        sim = self.sim
        mode = sim.cfg["mode"]
        sim.run_body(job, overlay=(mode != "atomic"))
        sim.emit("body_done", job.jid, job.label, type(job.exc).__name__ if job.exc else None)
        dur = sim.draw_duration() + job.extra_duration
        job.extra_duration = 0.0
        t = sim.now
        if mode == "atomic" or not job.writes:
            t_done = t + dur
        elif mode == "two_phase":
            t_commit = t + dur
            writes = job.writes
            job.writes = []
            sim.schedule(t_commit, lambda: self._commit(job, writes), "commit")
            t_done = t_commit + sim.draw_small()
        else:  # spread
            writes = job.writes
            job.writes = []
            if sim.cfg["shuffle_writes"] and len(writes) > 1:
                # only writes to distinct keys may be reordered
                if len({(id(w[0]), w[1]) for w in writes}) == len(writes):
                    writes = sim.tape.shuffle(writes)
                    sim.count("task_writes_shuffled")
            tc = t + dur
            for w in writes:
                sim.schedule(tc, (lambda w=w: self._commit(job, [w])), "commit")
                tc += sim.draw_small()
            t_done = tc
        job.overlays = {}
        if report:
            sim.schedule(t_done, lambda: self._complete(job), "complete")
        else:
            sim.schedule(t_done, lambda: self._zombie_done(job), "zombie_done")

    def _commit(self, job: Job, writes):
        sim = self.sim
        for st, key, value in writes:
            st.commit_one(key, value, job=job.label)

    def _complete(self, job: Job):
        sim = self.sim
        job.state = "done"
        job.t_done = sim.now
        sim.emit("complete", job.jid, job.label, type(job.exc).__name__ if job.exc else None)
        if sim.on_job_event:
            sim.on_job_event("complete", job)
        # zombie: the same code runs again later, unreported
        zn = sim.cfg["zombie_num"]
        if zn and job.exc is None and sim.tape.coin(zn, 16):
            self._spawn_zombie(job)
        if job.exc is not None:
            job.cfut.set_exception(job.exc)
        else:
            job.cfut.set_result(job.result)
        self._free_worker()

    def _spawn_zombie(self, job: Job):
        sim = self.sim
        z = Job(len(sim.jobs), job.fn, job.args, job.kwargs, self)
        z.label = job.label + ("zombie",)
        z.zombie_of = job.jid
        sim.jobs.append(z)
        if sim.cfg["zombie_late"]:
            delay = sim.tape.choice([0, 0.25, 1, 3, 10, 40])
        else:
            delay = sim.tape.choice([0, 0.25, 0.5, 1])
        sim.count("zombie_spawned")
        sim.emit("zombie_spawn", z.jid, z.label, delay)
        sim.schedule(sim.now + delay, lambda: self._zombie_start(z), "zombie_start")

    def _zombie_start(self, z: Job):
        sim = self.sim
        sim.emit("zombie_start", z.jid, z.label)
        sim.count("zombie_executed")
        self._execute(z, report=False)

    def _zombie_done(self, z: Job):
        self.sim.emit("zombie_done", z.jid, z.label, type(z.exc).__name__ if z.exc else None)


# ---------------------------------------------------------------------------
# arming
# ---------------------------------------------------------------------------

class _VClock:
    """Stands in for the ``time`` module inside cubed's runtime modules."""

    def __init__(self, sim, real):
        self._sim = sim
        self._real = real

    def time(self):
        return self._sim.now

    def monotonic(self):
        return self._sim.now

    def perf_counter(self):
        return self._sim.now

    def sleep(self, s):
        # a task body that sleeps just takes longer
        j = self._sim.current_job
        if j is not None:
            j.extra_duration += float(s)

    def __getattr__(self, name):
        return getattr(self._real, name)


@contextlib.contextmanager
def activated(sim: Sim):
    """Patch the seams for the duration of one simulated execution.

    * ``cubed.runtime.executors.local.ThreadPoolExecutor/ProcessPoolExecutor``
      -> SimPool
    * ``time`` in ``cubed.runtime.asyncio`` and ``cubed.runtime.utils`` ->
      virtual clock
    * event-loop policy armed per ``execute_dag`` by :func:`armed`
    """
    global CURRENT
    import cubed.runtime.asyncio as cra
    import cubed.runtime.executors.local as crl
    import cubed.runtime.utils as cru

    _install_policy()
    prev = CURRENT
    CURRENT = sim
    saved = (crl.ThreadPoolExecutor, crl.ProcessPoolExecutor, cra.time, cru.time)
    crl.ThreadPoolExecutor = SimPool
    crl.ProcessPoolExecutor = SimPool
    cra.time = _VClock(sim, saved[2])
    cru.time = _VClock(sim, saved[3])
    try:
        yield sim
    finally:
        crl.ThreadPoolExecutor, crl.ProcessPoolExecutor, cra.time, cru.time = saved
        CURRENT = prev
        _POLICY.disarm()


@contextlib.contextmanager
def armed(sim: Sim):
    """Around exactly one ``asyncio.run`` that must get the VirtualLoop."""
    pol = _install_policy()
    pol.arm(sim)
    old_err = sys.stderr
    try:
        yield
    finally:
        pol.disarm()
        loop = sim.loop
        if loop is not None:
            sim.vtime_total = sim.now
            if not loop.is_closed():
                try:
                    loop.close()
                except BaseException:  # noqa: BLE001
                    pass
            sim.loop = None


def events_digest(sim: Sim, extra=()) -> str:
    """sha256 of the canonicalised event log and store traces."""
    h = hashlib.sha256()
    for e in sim.events:
        h.update(repr(e).encode())
        h.update(b"\n")
    for st in sim.stores:
        for e in st.trace:
            h.update(repr(e).encode())
            h.update(b"\n")
    for x in extra:
        h.update(repr(x).encode())
    return h.hexdigest()
