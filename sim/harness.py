"""Full-stack harness: run real cubed computations inside the simulator.

The unmodified ``SingleThreadedExecutor``, ``ThreadsExecutor`` and
``ProcessesExecutor`` classes are used; the latter two get the VirtualLoop and
the SimPool through the seams patched by :func:`sim.core.activated`.
"""
from __future__ import annotations

import contextlib
import io
import logging
import random
import warnings

from . import store as simstore
from .core import Sim, activated, armed, events_digest  # noqa: F401
from .loop import SimHang, SimStepLimit  # noqa: F401
from .tape import Tape  # noqa: F401

logging.getLogger("asyncio").setLevel(logging.CRITICAL)


def _pin_zarr_threads():
    """Zarr encodes/decodes the chunks of one array call in a private thread pool and issues
    the store writes in completion order - a source of nondeterminism inside a dependency.
    The simulator owns that dimension instead (spread-commit mode permutes a task's writes)."""
    import zarr

    zarr.config.set({"codec_pipeline.max_workers": 1})


_pin_zarr_threads()

# cubed sets Zarr's global `array.write_empty_chunks` when its storage module is first imported - lazily, i.e. in the
# middle of the first run of a process, after the harness has already written that run's Zarr inputs with Zarr's own
# default. Import it now, so that the first run of an interpreter does not differ from the later ones (found by the
# determinism self-test: an all-fill input chunk was a `miss` in the first run and a `hit` in the second).
try:
    import cubed.storage.stores.zarr_python_v3  # noqa: E402,F401
except Exception:  # noqa: BLE001
    pass

from .loop import install_deterministic_zarr_loop  # noqa: E402

ZARR_LOOP = install_deterministic_zarr_loop()


def reset_globals(seed: int = 0, keep_stores: bool = False):
    """Reset process-global state so that a run does not depend on what ran
    before it in the same interpreter."""
    import cubed
    import cubed.core.array
    import cubed.core.optimization
    import cubed.core.plan
    import cubed.primitive.blockwise
    import cubed.runtime.utils
    import cubed.spec
    from cubed.runtime.types import Callback

    cubed.core.array.sym_counter = 0
    cubed.core.plan.sym_counter = 0
    cubed.primitive.blockwise.sym_counter = 0
    cubed.core.optimization.sym_counter = 0
    cubed.runtime.utils.sym_counter = 0
    Callback.active.clear()
    cubed.config.refresh()  # undo any cubed.config.set() of an earlier run
    cubed.spec._spec_from_serialized_config.cache_clear()
    try:
        cubed.core.plan.Plan._finalize.cache_clear()
    except AttributeError:
        pass
    random.seed(seed)
    if not keep_stores:
        # (a run that builds its program several times keeps its stores: their ids must stay unique)
        simstore.reset_registry()
    global ZARR_LOOP
    ZARR_LOOP = install_deterministic_zarr_loop()  # re-installs after a fork
    ZARR_LOOP.reset_counter()


def set_counters(n: int):
    import cubed.core.array
    import cubed.core.optimization
    import cubed.core.plan
    import cubed.primitive.blockwise
    import cubed.runtime.utils

    cubed.core.array.sym_counter = n
    cubed.core.plan.sym_counter = n
    cubed.primitive.blockwise.sym_counter = n
    cubed.core.optimization.sym_counter = n
    cubed.runtime.utils.sym_counter = n


def make_spec(store, allowed_mem=200_000_000, reserved_mem=0, compressor=None, **kw):
    import cubed

    return cubed.Spec(intermediate_store=store, allowed_mem=allowed_mem, reserved_mem=reserved_mem,
                      zarr_compressor=compressor, **kw)


def make_callback(sim: Sim):
    from cubed.runtime.types import Callback

    class RecordingCallback(Callback):
        def on_compute_start(self, event):
            sim.emit("cb_compute_start")
            self.dag = event.dag
            self.plan = getattr(event, "plan", None)

        def on_compute_end(self, event):
            sim.emit("cb_compute_end")

        def on_operation_start(self, event):
            sim.emit("cb_op_start", event.name)

        def on_operation_end(self, event):
            sim.emit("cb_op_end", event.name)

        def on_task_end(self, event):
            sim.emit("cb_task_end", event.name, event.num_tasks,
                     (event.task_create_tstamp, event.function_start_tstamp,
                      event.function_end_tstamp, event.task_result_tstamp))

    return RecordingCallback()


class ExecState:
    """What happened around executor entry during one compute call."""

    def __init__(self):
        self.entered = 0
        self.exited = 0
        self.dags = []


def _label_hook_factory(sim: Sim, st: ExecState):
    """Attribute each submitted job to (operation name, task input, submission #)."""
    import cloudpickle

    by_config_id = {}
    by_config_bytes = {}
    counts = {}

    def hook(job):
        from cubed.runtime.executors.local import unpickle_and_call

        kw = job.kwargs
        if job.fn is unpickle_and_call:
            inp = cloudpickle.loads(job.args[1])
            name = cloudpickle.loads(kw["name"]) if "name" in kw else None
            cb = kw.get("config")
            if name is None:
                name = by_config_bytes.get(cb)
            else:
                by_config_bytes[cb] = name
        else:
            inp = job.args[0]
            name = kw.get("name")
            cid = id(kw.get("config"))
            if name is None:
                name = by_config_id.get(cid)
            else:
                by_config_id[cid] = name
        key = (name, _inp_key(inp))
        sub = counts.get(key, 0)
        counts[key] = sub + 1
        return (name, _inp_key(inp), sub)

    return hook


def _inp_key(inp):
    if isinstance(inp, (list, tuple)):
        return tuple(inp)
    return repr(inp)[:80]


def make_executor(sim: Sim, exec_cfg: dict, st: ExecState):
    """Real executor classes, wrapped only at ``execute_dag`` entry/exit."""
    import cubed.runtime.executors.local as crl

    kind = exec_cfg.get("kind", "threads")
    opts = {}
    for k in ("max_workers", "batch_size", "compute_arrays_in_parallel", "use_backups", "retries"):
        if exec_cfg.get(k) is not None:
            opts[k] = exec_cfg[k]
    if kind == "single":
        class SimSingle(crl.SingleThreadedExecutor):
            def execute_dag(self, dag, **kw):
                st.entered += 1
                st.dags.append(dag)
                sim.emit("execute_dag_enter", "single")
                try:
                    return super().execute_dag(dag, **kw)
                finally:
                    st.exited += 1
                    sim.emit("execute_dag_exit")

        return SimSingle()
    if kind == "processes":
        opts.pop("retries", None)
    base = crl.ThreadsExecutor if kind == "threads" else crl.ProcessesExecutor
    if "max_workers" not in opts:
        opts["max_workers"] = 4

    class SimExec(base):
        def execute_dag(self, dag, **kw):
            st.entered += 1
            st.dags.append(dag)
            sim.emit("execute_dag_enter", kind)
            sim.label_hook = _label_hook_factory(sim, st)
            try:
                with armed(sim):
                    try:
                        return super().execute_dag(dag, **kw)
                    finally:
                        # a real pool keeps running what it has after shutdown(wait=False)
                        sim.drain()
            finally:
                from .loop import quiesce_zarr_loop

                quiesce_zarr_loop()
                st.exited += 1
                sim.emit("execute_dag_exit")

    return SimExec(**opts)


@contextlib.contextmanager
def single_job_labels(sim: Sim):
    """Give store events of the single-threaded executor a job attribution by
    wrapping the module-level ``exec_stage_func`` (a seam that exists)."""
    import cubed.runtime.executors.local as crl

    orig = crl.exec_stage_func
    counts = {}

    def wrapped(input, func=None, config=None, name=None, compute_id=None):
        key = (name, _inp_key(input))
        sub = counts.get(key, 0)
        counts[key] = sub + 1
        label = (name, _inp_key(input), sub)
        sim.emit("start", -1, label)
        for s in sim.stores:
            s.sh.current_job = label
        try:
            if sim.body_wrapper is not None:
                class _J:
                    pass

                j = _J()
                j.label = label
                return sim.body_wrapper(j, lambda: orig(input, func, config=config, name=name, compute_id=compute_id))
            return orig(input, func, config=config, name=name, compute_id=compute_id)
        except BaseException:
            from .loop import quiesce_zarr_loop

            quiesce_zarr_loop()
            raise
        finally:
            for s in sim.stores:
                s.sh.current_job = None
            sim.emit("complete", -1, label, None)

    crl.exec_stage_func = wrapped
    try:
        yield
    finally:
        crl.exec_stage_func = orig


@contextlib.contextmanager
def quiet():
    out = io.StringIO()
    with contextlib.redirect_stdout(out), warnings.catch_warnings():
        warnings.simplefilter("ignore")
        yield out


def exec_cfg_from_tape(tp: Tape, kinds=("single", "threads", "processes"), faults=False):
    kind = tp.choice(list(kinds))
    cfg = dict(kind=kind)
    if kind != "single":
        cfg["max_workers"] = tp.choice([1, 2, 3, 4, 8])
        cfg["batch_size"] = tp.choice([None, None, 1, 2, 3, 5])
        cfg["compute_arrays_in_parallel"] = tp.choice([None, False, True, True])
    return cfg


def sim_cfg_from_tape(tp: Tape, modes=("atomic", "two_phase", "spread")):
    return dict(
        mode=tp.choice(list(modes)),
        dur=tp.choice(["zero", "grid", "grid", "heavy"]),
        start_jitter=tp.choice([0, 1]),
        coalesce=tp.choice([0, 1, 2]),
        eager=tp.choice([0, 1]),
        tie_sim_first=tp.choice([0, 1]),
    )
