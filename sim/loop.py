"""VirtualLoop: asyncio on discrete-event virtual time.

Real ``asyncio.Future`` / ``Task`` / ``wait`` / ``wrap_future`` / timers run
unchanged; only the selector and the clock are replaced.  Time advances in
exactly one place, the fake selector's ``select(timeout)``: when asyncio has
nothing ready it asks the simulator for the next simulator event; if one is due
before the next asyncio timer the clock jumps there and the event runs,
otherwise the clock jumps to the timer.  If nothing is ready, no timer is armed
and no simulator event exists the loop raises :class:`SimHang` - a hang is a
state, not a timeout.
"""
from __future__ import annotations

import asyncio
import asyncio.base_events
import heapq
import threading


class SimHang(BaseException):
    """The system can make no further progress (deadlock)."""


class SimStepLimit(BaseException):
    """Step or virtual-time cap exceeded."""


class SimFuture(asyncio.Future):
    """asyncio.Future whose hash is drawn from the tape.

    ``async_map_unordered`` keeps futures in sets and iterates them; with
    identity hashes the order would depend on memory addresses.
    """

    _sim_hash = 0

    def __hash__(self):
        return self._sim_hash

    def __eq__(self, other):
        return self is other


class SimTask(asyncio.Task):
    _sim_hash = 0

    def __hash__(self):
        return self._sim_hash

    def __eq__(self, other):
        return self is other


class _FakeSelector:
    def __init__(self, loop: "VirtualLoop"):
        self._loop = loop

    def select(self, timeout):
        self._loop._sim_select(timeout)
        return []

    def close(self):
        pass

    def get_map(self):
        return {}


class VirtualLoop(asyncio.base_events.BaseEventLoop):
    def __init__(self, sim):
        super().__init__()
        self._sim = sim
        self._selector = _FakeSelector(self)
        self._clock_resolution = 1e-9
        self.set_task_factory(self._task_factory)
        self._n_iterations = 0

    # -- clock -------------------------------------------------------------
    def time(self):
        return self._sim.now

    # -- hooks BaseEventLoop needs ------------------------------------------
    def _process_events(self, event_list):
        pass

    def _write_to_self(self):
        pass

    # -- deterministic hashes ------------------------------------------------
    def create_future(self):
        f = SimFuture(loop=self)
        f._sim_hash = self._sim.draw_hash()
        return f

    def _task_factory(self, loop, coro, **kwargs):
        t = SimTask(coro, loop=loop, **kwargs)
        t._sim_hash = self._sim.draw_hash()
        return t

    # -- the only place time advances --------------------------------------
    def _sim_select(self, timeout):
        sim = self._sim
        self._n_iterations += 1
        sim.on_loop_iteration(self._n_iterations)
        if timeout == 0:
            # asyncio has ready callbacks: do not advance; optionally deliver
            # simulator events that are already due (same instant)
            sim.deliver_due(eager=True)
            return
        nxt = sim.next_event_time()
        if timeout is None:
            if nxt is None:
                raise SimHang(
                    f"no ready callback, no timer, no simulator event at t={sim.now}"
                )
            sim.advance_to(max(sim.now, nxt))
            sim.deliver_due(eager=False)
            return
        deadline = sim.now + timeout
        if nxt is not None and (nxt < deadline or (nxt == deadline and sim.tie_sim_first())):
            sim.advance_to(max(sim.now, nxt))
            sim.deliver_due(eager=False)
        else:
            sim.advance_to(deadline)


class OneShotPolicy(asyncio.DefaultEventLoopPolicy):
    """Hands out a VirtualLoop exactly once per arming, and only on the armed thread.

    Every other ``new_event_loop()`` (e.g. Zarr's IO thread) gets a real loop.
    """

    def __init__(self):
        super().__init__()
        self._armed = None  # (thread ident, sim)

    def arm(self, sim):
        self._armed = (threading.get_ident(), sim)

    def disarm(self):
        self._armed = None

    def new_event_loop(self):
        a = self._armed
        if a is not None and a[0] == threading.get_ident():
            self._armed = None
            loop = VirtualLoop(a[1])
            a[1].loop = loop
            return loop
        return super().new_event_loop()


# ---------------------------------------------------------------------------
# Zarr's private IO loop, made deterministic
# ---------------------------------------------------------------------------

class _DetFuture(asyncio.Future):
    _det_hash = 0

    def __hash__(self):
        return self._det_hash

    def __eq__(self, other):
        return self is other


class _DetTask(asyncio.Task):
    _det_hash = 0

    def __hash__(self):
        return self._det_hash

    def __eq__(self, other):
        return self is other


class _InlineExecutor(__import__("concurrent.futures").futures.ThreadPoolExecutor):
    """Runs submitted calls immediately in the submitting (IO-loop) thread.

    Zarr's codecs compress each chunk through ``asyncio.to_thread``; with a real
    pool the completion order of the chunks of one array call - and therefore the
    order of the store writes - is decided by the OS scheduler."""

    def submit(self, fn, /, *args, **kwargs):
        import concurrent.futures as _cf

        f = _cf.Future()
        try:
            f.set_result(fn(*args, **kwargs))
        except BaseException as e:  # noqa: BLE001
            f.set_exception(e)
        return f


class DetIOLoop(asyncio.SelectorEventLoop):
    """A real selector loop (Zarr's IO thread runs it) whose futures and tasks hash to a
    per-run sequence number instead of their address.

    Zarr drains batches with ``asyncio.as_completed`` / ``asyncio.wait``, which keep futures
    in sets; with identity hashes the order in which the store sees the chunk writes of one
    array call depends on memory addresses.
    """

    def __init__(self):
        super().__init__()
        self._det_counter = 0
        self._pid = __import__("os").getpid()
        self.set_task_factory(self._det_task_factory)
        self.set_default_executor(_InlineExecutor(max_workers=1))

    def _next(self):
        self._det_counter += 1
        return self._det_counter

    def create_future(self):
        f = _DetFuture(loop=self)
        f._det_hash = self._next()
        return f

    def _det_task_factory(self, loop, coro, **kwargs):
        t = _DetTask(coro, loop=loop, **kwargs)
        t._det_hash = self._next()
        return t

    def reset_counter(self):
        self._det_counter = 0


def install_deterministic_zarr_loop():
    import zarr.core.sync as zs

    import os

    cur = zs.loop[0]
    if isinstance(cur, DetIOLoop) and cur._pid == os.getpid() and zs.iothread[0] is not None and zs.iothread[0].is_alive():
        return cur
    # (also after a fork: Zarr resets its loop in the child and would lazily create a plain one -
    # with a real thread pool behind asyncio.to_thread - on first use)
    if isinstance(cur, DetIOLoop) and cur._pid != os.getpid():
        cur = None  # the parent's loop object: its thread does not exist here
    with zs._get_lock():
        if cur is not None:
            try:
                cur.call_soon_threadsafe(cur.stop)
            except Exception:  # noqa: BLE001
                pass
        new_loop = DetIOLoop()
        zs.loop[0] = new_loop
        th = threading.Thread(target=new_loop.run_forever, name="zarr_io", daemon=True)
        th.start()
        zs.iothread[0] = th
    return new_loop


def quiesce_zarr_loop(timeout=120):
    """Block until Zarr's IO loop has no unfinished tasks.

    When one of several concurrent chunk operations of an array call raises (store
    down, injected I/O error), ``sync()`` returns to the caller while the sibling
    coroutines are still running in the IO thread.  Letting them race with the
    simulator thread would make traces - and the overlay they write to - depend
    on OS scheduling, so the simulator waits for them at every such point."""
    import zarr.core.sync as zs

    loop = zs.loop[0]
    if loop is None or not loop.is_running():
        return

    async def _q():
        me = asyncio.current_task()
        for _ in range(1000):
            others = [t for t in asyncio.all_tasks() if t is not me and not t.done()]
            if not others:
                return
            await asyncio.gather(*others, return_exceptions=True)

    asyncio.run_coroutine_threadsafe(_q(), loop).result(timeout=timeout)
