"""Write monitor: records every array write a task issues.

A class-level wrapper around ``zarr.Array.__setitem__`` (installed by the
harness for the duration of a run, removed afterwards).  Zarr silently
broadcasts a smaller value into the selected region, so this is the only place
a block-shape error is visible (C12), and it gives the geometric "does this
write cover whole stored chunks" test (C05).
"""
from __future__ import annotations

import contextlib

import numpy as np
import zarr


def _region_shape(selection, shape):
    if not isinstance(selection, tuple):
        selection = (selection,)
    out = []
    sel = list(selection)
    # pad with full slices
    while len(sel) < len(shape):
        sel.append(slice(None))
    for s, n in zip(sel, shape):
        if isinstance(s, slice):
            start, stop, step = s.indices(n)
            out.append(max(0, (stop - start + (step - 1)) // step) if step > 0 else 0)
        elif isinstance(s, (int, np.integer)):
            continue
        else:
            return None
    return tuple(out)


def _bounds(selection, shape):
    """[(start, stop)] per dimension for slice/int selections (step 1), else None."""
    if not isinstance(selection, tuple):
        selection = (selection,)
    sel = list(selection)
    while len(sel) < len(shape):
        sel.append(slice(None))
    out = []
    for s, n in zip(sel, shape):
        if isinstance(s, slice):
            start, stop, step = s.indices(n)
            if step != 1:
                return None
            out.append((start, max(start, stop)))
        elif isinstance(s, (int, np.integer)):
            i = int(s) % n if n else 0
            out.append((i, i + 1))
        else:
            return None
    return out


def storage_grid(arr: zarr.Array):
    """Per-dimension tuple of stored-object extents (shards if sharded, else chunks)."""
    shards = getattr(arr, "shards", None)
    if shards is not None:
        return tuple(_regular(n, c) for n, c in zip(arr.shape, shards))
    try:
        cs = arr.chunks
        return tuple(_regular(n, c) for n, c in zip(arr.shape, cs))
    except NotImplementedError:
        return tuple(tuple(int(x) for x in dim) for dim in arr.read_chunk_sizes)


def _regular(n, c):
    if n == 0:
        return ()
    c = max(int(c), 1)
    full, rem = divmod(n, c)
    return (c,) * full + ((rem,) if rem else ())


def covers_whole_chunks(bounds, grid):
    """True iff, in every dimension, [start, stop) is a union of whole grid cells."""
    for (a, b), cells in zip(bounds, grid):
        if a == b:
            continue
        edges = {0}
        acc = 0
        for c in cells:
            acc += c
            edges.add(acc)
        if a not in edges or b not in edges:
            return False
    return True


class WriteRecord:
    __slots__ = ("job", "store", "path", "selection", "bounds", "region_shape", "value_shape",
                 "array_shape", "grid", "dtype", "value_dtype", "seq")

    def asdict(self):
        return {k: getattr(self, k) for k in self.__slots__ if k not in ("store",)}


@contextlib.contextmanager
def write_monitor(sim, records: list):
    orig = zarr.Array.__setitem__

    def patched(self, selection, value):
        try:
            r = WriteRecord()
            sa = self.store_path
            r.store = sa.store
            r.path = sa.path
            r.job = getattr(getattr(sa.store, "sh", None), "current_job", None)
            r.selection = repr(selection)
            r.array_shape = tuple(self.shape)
            r.region_shape = _region_shape(selection, self.shape)
            r.bounds = _bounds(selection, self.shape)
            v = np.asarray(value) if not hasattr(value, "shape") else value
            r.value_shape = tuple(v.shape)
            r.value_dtype = str(getattr(v, "dtype", ""))
            r.dtype = str(self.dtype)
            r.grid = storage_grid(self)
            r.seq = sim.seq()
            records.append(r)
        except Exception as e:  # noqa: BLE001 - the monitor must never break the run
            sim.count("write_monitor_error")
            sim.emit("write_monitor_error", repr(e))
        return orig(self, selection, value)

    zarr.Array.__setitem__ = patched
    try:
        yield records
    finally:
        zarr.Array.__setitem__ = orig
