"""Placement in a fresh interpreter ("serialized-and-shipped" execution).

The default ``ProcessesExecutor`` of cubed starts its workers with the *spawn*
context: every task body runs in an interpreter that has imported cubed but has
seen none of the client's state (name counters, caches, configuration set at
run time, modules' globals mutated while the plan was built).  ``RemoteWorker``
is that interpreter under the simulator's control:

* the simulator decides, from the tape, which jobs are placed remotely and on
  which of the run's workers; the job's ``(fn, args, kwargs)`` cross the process
  boundary through plain ``pickle`` exactly like ``ProcessPoolExecutor`` sends
  them (cubed pre-pickles the payload with cloudpickle), or - for the threads
  executor, which ships nothing - through ``cloudpickle`` the way cubed's remote
  executors (Lithops, Modal, ...) ship ``run_func``;
* the worker executes the body *synchronously while the simulator waits*: one
  body at a time, so the interleaving is still decided by the simulator alone;
* every store access of the remote body is sent back over the pipe and served
  by the live ``SimStore`` in the simulator process (tracing, overlays, fault
  hooks and crash state all apply unchanged); in the worker a ``SimStore``
  unpickles to a :class:`RemoteStore` proxy.

Nothing real is shared between the two interpreters but the pipe.
"""
from __future__ import annotations

import functools
import os
import pickle
import struct
import subprocess
import sys

VERIF = os.path.dirname(os.path.dirname(os.path.abspath(__file__)))
PY = "/venv/bin/python"


class RemoteError(Exception):
    """An exception of the remote body that could not be pickled."""


# ---------------------------------------------------------------------------
# framing
# ---------------------------------------------------------------------------

def _send(f, obj):
    data = pickle.dumps(obj, protocol=4)
    f.write(struct.pack("<Q", len(data)))
    f.write(data)
    f.flush()


def _recv(f):
    hdr = f.read(8)
    if len(hdr) < 8:
        raise EOFError("remote pipe closed")
    (n,) = struct.unpack("<Q", hdr)
    data = f.read(n)
    if len(data) < n:
        raise EOFError("remote pipe closed mid-message")
    return pickle.loads(data)


def _dump_exc(e):
    try:
        b = pickle.dumps(e)
        pickle.loads(b)
        return b
    except BaseException:  # noqa: BLE001
        return pickle.dumps(RemoteError(f"{type(e).__name__}: {e}"))


# ---------------------------------------------------------------------------
# simulator side
# ---------------------------------------------------------------------------

def _drive(coro):
    """Run a SimStore coroutine (they never suspend) to completion."""
    try:
        coro.send(None)
    except StopIteration as e:
        return e.value
    coro.close()
    raise RuntimeError("store coroutine suspended")


def _drive_agen(agen):
    out = []
    while True:
        try:
            out.append(_drive(agen.__anext__()))
        except StopAsyncIteration:
            return out


def _serve_store(msg):
    """Execute one store request of the remote body on the live SimStore."""
    from zarr.core.buffer.core import default_buffer_prototype

    from . import store as simstore

    _, sid, read_only, op, args = msg
    st = simstore.REGISTRY[sid]
    if read_only:
        st = st.with_read_only(True)
    proto = default_buffer_prototype()
    if op == "get":
        key, byte_range = args
        b = st._do_get(key, proto, byte_range)
        return None if b is None else bytes(b.to_bytes())
    if op == "get_partial_values":
        out = []
        for key, br in args[0]:
            b = st._do_get(key, proto, br)
            out.append(None if b is None else bytes(b.to_bytes()))
        return out
    if op == "set":
        key, data, only_if_absent = args
        st._do_set(key, proto.buffer.from_bytes(data), only_if_absent=only_if_absent)
        return None
    if op == "delete":
        st._do_delete(args[0])
        return None
    if op == "exists":
        return _drive(st.exists(args[0]))
    if op == "list":
        return _drive_agen(st.list())
    if op == "list_prefix":
        return _drive_agen(st.list_prefix(args[0]))
    if op == "list_dir":
        return _drive_agen(st.list_dir(args[0]))
    if op == "clear":
        return _drive(st.clear())
    raise ValueError(op)


class RemoteWorker:
    """One fresh interpreter, alive for one simulated run."""

    def __init__(self):
        env = dict(os.environ)
        env["PYTHONHASHSEED"] = env.get("PYTHONHASHSEED", "0")
        env["PYTHONDONTWRITEBYTECODE"] = "1"
        self.p = subprocess.Popen([PY, os.path.join(VERIF, "sim", "remote_main.py")], stdin=subprocess.PIPE,
                                  stdout=subprocess.PIPE, stderr=subprocess.DEVNULL, env=env, cwd=VERIF)
        self.calls = 0
        hello = _recv(self.p.stdout)
        assert hello[0] == "hello", hello
        self.cubed_file = hello[1]

    def call(self, fn, args, kwargs, how="pickle", now=0.0):
        """Ship one job, serve its store traffic, return its result or raise its exception."""
        if how == "pickle":
            payload = pickle.dumps((fn, args, kwargs), protocol=4)
        else:
            import cloudpickle

            payload = cloudpickle.dumps((fn, args, kwargs))
        self.calls += 1
        _send(self.p.stdin, ("call", how, payload, now))
        while True:
            msg = _recv(self.p.stdout)
            if msg[0] == "store":
                try:
                    r = ("ok", _serve_store(msg))
                except BaseException as e:  # noqa: BLE001 - SimCrash, injected faults, read-only errors
                    r = ("exc", _dump_exc(e))
                _send(self.p.stdin, r)
            elif msg[0] == "result":
                return pickle.loads(msg[1])
            elif msg[0] == "raise":
                raise pickle.loads(msg[1])
            else:
                raise RuntimeError(f"remote protocol: {msg[0]!r}")

    def close(self):
        try:
            _send(self.p.stdin, ("bye",))
        except BaseException:  # noqa: BLE001
            pass
        try:
            self.p.stdin.close()
            self.p.stdout.close()
        except BaseException:  # noqa: BLE001
            pass
        try:
            self.p.wait(timeout=10)
        except BaseException:  # noqa: BLE001
            self.p.kill()
            self.p.wait()


class Placement:
    """Per-run placement policy consulted by ``Sim.run_body``.

    ``num``/16 of the jobs are shipped; ``workers`` fresh interpreters are started lazily and a
    shipped job goes to one of them chosen from the tape (a real pool hands a task to whichever
    worker is idle)."""

    def __init__(self, sim, num=16, workers=1, how="pickle"):
        self.sim = sim
        self.num = num
        self.how = how
        self.n_workers = workers
        self.workers: list[RemoteWorker | None] = [None] * workers

    def wants(self, job) -> bool:
        return self.num >= 16 or self.sim.tape.coin(self.num, 16)

    def run(self, job):
        i = self.sim.tape.randint(0, self.n_workers - 1) if self.n_workers > 1 else 0
        w = self.workers[i]
        if w is None:
            w = self.workers[i] = RemoteWorker()
            self.sim.count("remote_interpreters_started")
        self.sim.count("remote_bodies")
        self.sim.emit("remote", job.jid, i)
        fn = job.fn
        if self.how == "cloudpickle" and isinstance(fn, functools.partial) and fn.args and not fn.keywords \
                and type(fn.func).__name__ == "Retrying":
            # threads executor: partial(Retrying, run_func_threads). The retry loop stays with the client (it holds a
            # thread-local and is not shippable, exactly as with cubed's remote executors, which retry on the client);
            # each attempt ships the function and its arguments
            retryer, function = fn.func, fn.args[0]
            rest = fn.args[1:]

            def attempt(*a, **k):
                return w.call(function, rest + a, k, how="cloudpickle", now=self.sim.now)

            return retryer(attempt, *job.args, **job.kwargs)
        return w.call(fn, job.args, job.kwargs, how=self.how, now=self.sim.now)

    def close(self):
        for w in self.workers:
            if w is not None:
                w.close()
        self.workers = [None] * self.n_workers


# ---------------------------------------------------------------------------
# worker side
# ---------------------------------------------------------------------------

def worker_main():
    # the protocol owns fds 0/1; nothing else may write to them
    fin = os.fdopen(os.dup(0), "rb")
    fout = os.fdopen(os.dup(1), "wb")
    devnull = os.open(os.devnull, os.O_RDWR)
    os.dup2(devnull, 0)
    os.dup2(devnull, 1)
    sys.stdout = open(os.devnull, "w")
    import warnings

    warnings.filterwarnings("ignore")
    if VERIF not in sys.path:
        sys.path.insert(0, VERIF)
    import numpy as np

    np.seterr(all="ignore")
    import cubed  # noqa: F401
    from zarr.core.buffer.core import default_buffer_prototype
    from zarr.storage import MemoryStore

    from sim import harness  # noqa: F401  (pins Zarr's codec threads, installs the deterministic IO loop)
    from sim import store as simstore
    from sim.loop import quiesce_zarr_loop

    def rpc(sid, read_only, op, *args):
        _send(fout, ("store", sid, read_only, op, args))
        tag, val = _recv(fin)
        if tag == "exc":
            raise pickle.loads(val)
        return val

    class RemoteStore(MemoryStore):
        _supports_sync_io = False

        def __init__(self, sid, read_only=False):
            super().__init__({}, read_only=read_only)
            self._sid = sid

        def __reduce__(self):
            return (simstore._lookup, (self._sid,))

        def __eq__(self, other):
            return isinstance(other, RemoteStore) and other._sid == self._sid

        def __hash__(self):
            return hash(("remote", self._sid))

        def __repr__(self):
            return f"RemoteStore({self._sid})"

        __str__ = __repr__

        def with_read_only(self, read_only=False):
            return RemoteStore(self._sid, read_only=read_only)

        def _rpc(self, op, *args):
            return rpc(self._sid, self.read_only, op, *args)

        async def get(self, key, prototype=None, byte_range=None):
            if prototype is None:
                prototype = default_buffer_prototype()
            b = self._rpc("get", key, byte_range)
            return None if b is None else prototype.buffer.from_bytes(b)

        async def get_partial_values(self, prototype, key_ranges):
            bs = self._rpc("get_partial_values", list(key_ranges))
            return [None if b is None else prototype.buffer.from_bytes(b) for b in bs]

        async def exists(self, key):
            return self._rpc("exists", key)

        async def set(self, key, value, byte_range=None):
            if byte_range is not None:
                raise NotImplementedError("partial writes are not simulated")
            self._check_writable()
            self._rpc("set", key, bytes(value.to_bytes()), False)

        async def set_if_not_exists(self, key, value):
            self._check_writable()
            self._rpc("set", key, bytes(value.to_bytes()), True)

        async def delete(self, key):
            self._check_writable()
            self._rpc("delete", key)

        async def list(self):
            for k in self._rpc("list"):
                yield k

        async def list_prefix(self, prefix):
            for k in self._rpc("list_prefix", prefix):
                yield k

        async def list_dir(self, prefix):
            for k in self._rpc("list_dir", prefix):
                yield k

        async def clear(self):
            self._rpc("clear")

    class _Registry(dict):
        def __missing__(self, sid):
            st = self[sid] = RemoteStore(sid)
            return st

    simstore.REGISTRY = _Registry()

    class _VClock:
        """The remote body reads the simulator's virtual time (sent with every call)."""

        now = 0.0

        def time(self):
            return self.now

        monotonic = perf_counter = time

        def sleep(self, s):
            pass

        def __getattr__(self, name):
            import time as _t

            return getattr(_t, name)

    vclock = _VClock()
    import cubed.runtime.asyncio as cra
    import cubed.runtime.utils as cru

    cra.time = vclock
    cru.time = vclock
    _send(fout, ("hello", cubed.__file__))
    while True:
        try:
            msg = _recv(fin)
        except EOFError:
            break
        if msg[0] == "bye":
            break
        _, how, payload, now = msg
        vclock.now = now
        try:
            if how == "pickle":
                fn, args, kwargs = pickle.loads(payload)
            else:
                import cloudpickle

                fn, args, kwargs = cloudpickle.loads(payload)
            res = fn(*args, **kwargs)
            try:
                out = ("result", pickle.dumps(res, protocol=4))
            except BaseException:  # noqa: BLE001
                import cloudpickle

                out = ("result", cloudpickle.dumps(res))
        except BaseException as e:  # noqa: BLE001
            try:
                quiesce_zarr_loop()  # sibling chunk operations must not talk on the pipe after the reply
            except BaseException:  # noqa: BLE001
                pass
            out = ("raise", _dump_exc(e))
        _send(fout, out)
    os._exit(0)
