"""Entry point of a RemoteWorker interpreter (see sim/remote.py)."""
import os
import sys

sys.path.insert(0, os.path.dirname(os.path.dirname(os.path.abspath(__file__))))

from sim.remote import worker_main  # noqa: E402

worker_main()
