"""SimStore: the storage seam.

A ``zarr.storage.MemoryStore`` subclass (so Zarr treats it as an ordinary
store, listing included) that

* traces every access, stamped with the job that issued it,
* buffers the writes of the currently running job in an overlay (two-phase /
  spread-commit execution), applied later by the pool,
* injects faults (transient / persistent errors on chosen keys, crash after the
  n-th committed set, after which the store is *down*),
* can snapshot / restore / digest its durable state.

Durability model: a committed ``set`` is durable and immediately visible to
every later read; buffered, uncommitted writes are lost at a crash.
"""
from __future__ import annotations

import hashlib
from typing import Any

from zarr.core.buffer import Buffer
from zarr.core.buffer.core import default_buffer_prototype
from zarr.storage import MemoryStore
from zarr.storage._utils import _normalize_byte_range_index

# registry so that a pickled SimStore resolves to the same live object
# (the processes executor cloudpickles the store with every task)
REGISTRY: dict[int, "SimStore"] = {}
_next_id = [0]


def reset_registry():
    REGISTRY.clear()
    _next_id[0] = 0


def _lookup(store_id: int) -> "SimStore":
    return REGISTRY[store_id]


class SimCrash(Exception):
    """The simulated deployment has crashed; the store is down."""


class InjectedIOError(OSError):
    """A storage fault injected by the simulator."""


def is_data_key(key: str) -> bool:
    """True for chunk / shard keys (``.../c/0/1``), False for metadata."""
    return "/c/" in key or key.startswith("c/") or key.endswith("/c") or key == "c"


def array_of_key(key: str) -> str:
    """Array path a key belongs to ('' for the store root)."""
    if key.endswith("zarr.json"):
        return key[: -len("zarr.json")].rstrip("/")
    i = key.find("/c/")
    if i >= 0:
        return key[:i]
    if key.endswith("/c"):
        return key[:-2]
    if key.startswith("c/") or key == "c":
        return ""
    return key.rsplit("/", 1)[0] if "/" in key else ""


def _bytes_of(buf: Buffer) -> bytes:
    return bytes(buf.to_bytes())


class SimStore(MemoryStore):
    # force Zarr through the async store API only (one seam)
    _supports_sync_io = False

    def __init__(self, store_dict=None, *, read_only: bool = False, name: str = "store", _sid=None):
        super().__init__(store_dict, read_only=read_only)
        if _sid is None:
            _next_id[0] += 1
            _sid = _next_id[0]
            REGISTRY[_sid] = self
            self._shared = _Shared(name)
        self._sid = _sid

    # ------------------------------------------------------------------
    # identity / pickling
    # ------------------------------------------------------------------
    def __reduce__(self):
        return (_lookup, (self._sid,))

    def __eq__(self, other):
        return self is other

    def __hash__(self):
        return id(self)

    def __repr__(self):
        return f"SimStore({self._shared.name!r})"

    __str__ = __repr__

    def with_read_only(self, read_only: bool = False):
        s = SimStore.__new__(SimStore)
        MemoryStore.__init__(s, self._store_dict, read_only=read_only)
        s._sid = self._sid
        s._shared = self._shared
        return s

    # ------------------------------------------------------------------
    # shared state accessors
    # ------------------------------------------------------------------
    @property
    def sh(self) -> "_Shared":
        return self._shared

    @property
    def trace(self):
        return self._shared.trace

    # ------------------------------------------------------------------
    # core operations (all store methods funnel through these)
    # ------------------------------------------------------------------
    def _pre(self, op: str, key: str):
        sh = self._shared
        if sh.down:
            sh.log(op, key, "down")
            raise SimCrash(f"store {sh.name} is down ({op} {key})")
        f = sh.fault_hook
        if f is not None:
            f(self, op, key)

    def _do_get(self, key, prototype, byte_range):
        sh = self._shared
        self._pre("get", key)
        ov = sh.overlay
        value = None
        if ov is not None and key in ov:
            value = ov[key]  # may be None == deleted in overlay
        else:
            value = self._store_dict.get(key)
        if value is None:
            sh.log("get", key, "miss")
            return None
        start, stop = _normalize_byte_range_index(value, byte_range)
        part = value[start:stop]
        if sh.copy_on_read:
            # a real store hands the caller freshly allocated bytes; the in-memory dict would hand out a view
            part = type(part).from_array_like(part.as_array_like().copy())
        out = prototype.buffer.from_buffer(part)
        sh.log("get", key, "hit", value)
        return out

    def _do_set(self, key, value: Buffer, only_if_absent=False):
        sh = self._shared
        self._check_writable()
        self._pre("set", key)
        if not isinstance(value, Buffer):
            raise TypeError("SimStore.set(): value must be a Buffer")
        value = type(value).from_array_like(value.as_array_like().copy())
        sh.bytes_retained += len(value)  # memory that stands in for the storage medium, not task memory
        ov = sh.overlay
        if only_if_absent:
            present = (ov is not None and ov.get(key) is not None) or (
                (ov is None or key not in ov) and key in self._store_dict
            )
            if present:
                sh.log("set_if_not_exists", key, "present")
                return
        if ov is not None:
            ov[key] = value
            sh.log("set", key, "buffered", value)
        else:
            self.commit_one(key, value, job=sh.current_job)

    def _do_delete(self, key):
        sh = self._shared
        self._check_writable()
        self._pre("delete", key)
        ov = sh.overlay
        if ov is not None:
            ov[key] = None
            sh.log("delete", key, "buffered")
        else:
            self.commit_one(key, None, job=sh.current_job)

    def commit_one(self, key: str, value, job=None):
        """Make one write durable and visible (called directly in atomic mode
        and by the pool when it applies a job's buffered writes)."""
        sh = self._shared
        if sh.down:
            sh.log("commit", key, "lost", job=job)
            return False
        ch = sh.commit_hook
        if ch is not None:
            ch(self, key, value, job)
            if sh.down:
                sh.log("commit", key, "lost", job=job)
                return False
        if value is None:
            self._store_dict.pop(key, None)
            sh.log("commit_delete", key, "ok", job=job)
        else:
            self._store_dict[key] = value
            sh.n_commits += 1
            sh.log("commit", key, "ok", value, job=job)
        ah = sh.after_commit_hook
        if ah is not None:
            ah(self, key, value, job)
        return True

    # ------------------------------------------------------------------
    # Store API (async)
    # ------------------------------------------------------------------
    async def get(self, key, prototype=None, byte_range=None):
        if prototype is None:
            prototype = default_buffer_prototype()
        if not self._is_open:
            await self._open()
        return self._do_get(key, prototype, byte_range)

    async def get_partial_values(self, prototype, key_ranges):
        return [self._do_get(k, prototype, br) for k, br in key_ranges]

    async def exists(self, key):
        sh = self._shared
        self._pre("exists", key)
        ov = sh.overlay
        if ov is not None and key in ov:
            r = ov[key] is not None
        else:
            r = key in self._store_dict
        sh.log("exists", key, "hit" if r else "miss")
        return r

    async def set(self, key, value, byte_range=None):
        await self._ensure_open()
        if byte_range is not None:
            raise NotImplementedError("partial writes are not simulated")
        self._do_set(key, value)

    async def set_if_not_exists(self, key, value):
        await self._ensure_open()
        self._do_set(key, value, only_if_absent=True)

    async def delete(self, key):
        self._do_delete(key)

    def _visible_keys(self):
        sh = self._shared
        ov = sh.overlay
        keys = list(self._store_dict)
        if ov:
            ks = [k for k in keys if not (k in ov and ov[k] is None)]
            for k, v in ov.items():
                if v is not None and k not in self._store_dict:
                    ks.append(k)
            keys = ks
        return keys

    async def list(self):
        self._pre("list", "")
        self._shared.log("list", "", "ok")
        for k in self._visible_keys():
            yield k

    async def list_prefix(self, prefix):
        self._pre("list_prefix", prefix)
        self._shared.log("list_prefix", prefix, "ok")
        for k in self._visible_keys():
            if k.startswith(prefix):
                yield k

    async def list_dir(self, prefix):
        self._pre("list_dir", prefix)
        self._shared.log("list_dir", prefix, "ok")
        prefix = prefix.rstrip("/")
        keys = self._visible_keys()
        if prefix == "":
            uniq = {k.split("/")[0] for k in keys}
        else:
            uniq = {
                k.removeprefix(f"{prefix}/").split("/")[0]
                for k in keys
                if k.startswith(f"{prefix}/") and k not in {prefix, f"{prefix}/"}
            }
        for k in sorted(uniq):
            yield k

    async def clear(self):
        self._pre("clear", "")
        self._shared.log("clear", "", "ok")
        self._store_dict.clear()

    # sync surface (not used because _supports_sync_io is False; kept coherent)
    def get_sync(self, key, *, prototype=None, byte_range=None):
        if prototype is None:
            prototype = default_buffer_prototype()
        return self._do_get(key, prototype, byte_range)

    def set_sync(self, key, value):
        self._do_set(key, value)

    def delete_sync(self, key):
        self._do_delete(key)

    # ------------------------------------------------------------------
    # durable state
    # ------------------------------------------------------------------
    def snapshot(self) -> dict[str, bytes]:
        return {k: _bytes_of(v) for k, v in self._store_dict.items()}

    def restore(self, snap: dict[str, bytes]):
        proto = default_buffer_prototype()
        self._store_dict.clear()
        for k, b in snap.items():
            self._store_dict[k] = proto.buffer.from_bytes(b)

    def digest(self) -> str:
        h = hashlib.sha256()
        for k in sorted(self._store_dict):
            h.update(k.encode())
            h.update(b"\0")
            h.update(hashlib.sha1(_bytes_of(self._store_dict[k])).digest())
        return h.hexdigest()

    def keys(self):
        return sorted(self._store_dict)


class _Shared:
    """State shared by a store and its read-only views."""

    def __init__(self, name):
        self.name = name
        self.trace: list[tuple] = []
        self.overlay: dict[str, Any] | None = None
        self.current_job = None
        self.down = False
        self.fault_hook = None
        self.commit_hook = None
        self.after_commit_hook = None
        self.n_commits = 0
        self.clock = None  # callable -> virtual time
        self.seq = None  # callable -> global sequence number
        self.tracing = True
        self.copy_on_read = False
        self.bytes_retained = 0

    def log(self, op, key, outcome, value=None, job=None):
        if not self.tracing:
            return
        if job is None:
            job = self.current_job
        if value is not None:
            b = _bytes_of(value)
            nbytes = len(b)
            sha = hashlib.sha1(b).hexdigest()[:16]
        else:
            nbytes = 0
            sha = ""
        seq = self.seq() if self.seq is not None else len(self.trace)
        t = self.clock() if self.clock is not None else 0.0
        self.trace.append((seq, t, job, op, key, outcome, nbytes, sha))
