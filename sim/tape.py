"""The tape: the one source of every choice a simulated run makes.

A run seed initialises one ``random.Random``.  Every decision (workload
generation, swarm configuration, durations, faults, future hashes) is drawn
through a :class:`Tape`, which records the draws in order.  In replay mode the
draws are read back from a recorded list instead of the PRNG (a missing draw
reads as the smallest legal value, i.e. "default choice"), so a replay is a pure
function of the replay file and the code.

Logging never draws from the tape.
"""
from __future__ import annotations

import hashlib
import random


def derive_seed(check: str, verif_seed: int, index: int) -> int:
    h = hashlib.sha256(f"{check}:{verif_seed}:{index}".encode()).digest()
    return int.from_bytes(h[:8], "big")


class Tape:
    """Recorded stream of bounded integer draws.

    Only one primitive exists, ``randint(lo, hi)`` (inclusive); everything else
    is built from it, so that a recorded tape is a flat list of integers that a
    shrinker can zero out or truncate.
    """

    __slots__ = ("seed", "_rng", "_replay", "_pos", "record", "label")

    def __init__(self, seed: int | None = None, replay: list[int] | None = None, label: str = ""):
        self.seed = seed
        self._rng = random.Random(seed) if replay is None else None
        self._replay = replay
        self._pos = 0
        self.record: list[int] = []
        self.label = label

    # -- primitive ---------------------------------------------------------
    def randint(self, lo: int, hi: int) -> int:
        if hi < lo:
            raise ValueError(f"empty range {lo}..{hi}")
        if self._replay is not None:
            if self._pos < len(self._replay):
                v = self._replay[self._pos]
                self._pos += 1
                # clamp into range: offsets are recorded relative to lo
                v = lo + (v % (hi - lo + 1))
            else:
                v = lo
            self.record.append(v - lo)
            return v
        v = self._rng.randint(lo, hi)
        self.record.append(v - lo)
        return v

    # -- derived -----------------------------------------------------------
    def below(self, n: int) -> int:
        return self.randint(0, n - 1)

    def coin(self, num: int = 1, den: int = 2) -> bool:
        """True with probability num/den.  A zeroed tape gives False."""
        if num <= 0:
            return False
        if num >= den:
            return True
        return self.randint(0, den - 1) >= den - num

    def choice(self, seq):
        seq = list(seq)
        return seq[self.below(len(seq))]

    def weighted(self, pairs):
        """pairs: [(item, integer weight)]; a zeroed tape gives the first item."""
        pairs = [(i, w) for i, w in pairs if w > 0]
        total = sum(w for _, w in pairs)
        r = self.below(total)
        for item, w in pairs:
            if r < w:
                return item
            r -= w
        return pairs[-1][0]

    def sample(self, seq, k: int):
        seq = list(seq)
        out = []
        for _ in range(min(k, len(seq))):
            out.append(seq.pop(self.below(len(seq))))
        return out

    def shuffle(self, seq):
        seq = list(seq)
        out = []
        while seq:
            out.append(seq.pop(self.below(len(seq))))
        return out

    def subset(self, seq, num: int = 1, den: int = 2):
        return [x for x in seq if self.coin(num, den)]

    def fork(self, label: str) -> "Tape":
        """An independent sub-tape (its own PRNG derived from one draw).

        Used so that the number of draws one component makes does not shift the
        draws of another (better shrinking, stable workload under schedule
        changes).  In replay mode the sub-tape replays its own recorded list,
        supplied by the caller through ``replay_children``.
        """
        s = self.randint(0, 2**62)
        return Tape(seed=s, label=label)
