"""Child interpreter for C20: builds a generated program in a fresh process (own name
counters, own CONTEXT_ID) and cloudpickles the chosen lazy arrays.

    c20_child.py <case.json> <out.pkl>
"""
import json
import os
import sys
import warnings

VERIF = os.path.dirname(os.path.dirname(os.path.abspath(__file__)))
sys.path.insert(0, VERIF)
warnings.filterwarnings("ignore")


def main():
    import cloudpickle
    import cubed

    from gen import programs as G

    case = json.load(open(sys.argv[1]))
    import random

    random.seed(case.get("py_seed", 0))
    spec = cubed.Spec(work_dir=case["work_dir"], allowed_mem=case["allowed_mem"], reserved_mem=0)
    # the child may already have created some arrays of its own
    import cubed.array_api as xp

    for _ in range(case.get("child_pre", 0)):
        xp.asarray([0.0], spec=spec)
    built = G.build(case["prog"], spec, None)
    out = {}
    for vid in case["ship"]:
        a = built.values[vid]
        out[vid] = None if a is None else cloudpickle.dumps(a)
    names = {vid: (built.values[vid].name if built.values[vid] is not None else None) for vid in case["ship"]}
    with open(sys.argv[2], "wb") as f:
        import pickle

        pickle.dump(dict(arrays=out, names=names, declines=[(d.step_index, type(d.exc).__name__) for d in built.declines]), f)
    return 0


if __name__ == "__main__":
    sys.exit(main())
