#!/bin/bash
# tools/confirm_mutant.sh <PROP> <letter> <src_dir>   (src_dir has patch.diff demo.py notes.md)
# Confirms in a scratch worktree: patch applies, demo fails with / passes without, existing suite passes.
# On success copies to /verif/seeded/<PROP>-<letter>/ with meta.json.
P=$1; L=$2; SRC=$3
ID="$P-$L"
WT=/tmp/cm/$ID
LOG=/tmp/cm/$ID.log
mkdir -p /tmp/cm
rm -rf $WT; git -C /repo worktree prune
git -C /repo worktree add --detach -q $WT HEAD || exit 2
cd $WT; mkdir -p $WT/_seeded
{
echo "== $ID  $(date)"
cp $SRC/demo.py /tmp/cm/$ID-demo.py
sed -i "s#/tmp/wt/$P#$WT#g" /tmp/cm/$ID-demo.py
echo "-- demo on clean tree"
PYTHONPATH=$WT timeout 300 /venv/bin/python /tmp/cm/$ID-demo.py > /tmp/cm/$ID-demo-clean.out 2>&1; rc_clean=$?
echo "rc_clean=$rc_clean"
git apply $SRC/patch.diff 2>/dev/null || git apply -3 $SRC/patch.diff || { echo "PATCH-FAIL"; }
git diff HEAD --stat | tail -2
echo "-- demo with change"
PYTHONPATH=$WT timeout 300 /venv/bin/python /tmp/cm/$ID-demo.py > /tmp/cm/$ID-demo-mut.out 2>&1; rc_mut=$?
echo "rc_mut=$rc_mut"
echo "-- suite with change"
timeout 3000 /venv/bin/python -m pytest -q -p no:cacheprovider --timeout=900 -n ${NPROC:-10} -k "not spark and not hypothesis" > /tmp/cm/$ID-suite.log 2>&1
tail -1 /tmp/cm/$ID-suite.log
python3 /verif/tools/suite_vs_baseline.py /tmp/cm/$ID-suite.log > /tmp/cm/$ID-cmp.txt; cat /tmp/cm/$ID-cmp.txt | head -3
serial_ok=1
if grep -q STABLE-FAIL /tmp/cm/$ID-cmp.txt; then
  # wall-clock based tests (test_stragglers) flake under load: re-run the failed stable tests alone, twice at most
  grep STABLE-FAIL /tmp/cm/$ID-cmp.txt | awk '{print $2}' | python3 -c "
import sys
for l in sys.stdin:
    mod, name = l.strip().split('::', 1)
    print(mod.replace('.', '/') + '.py::' + name)
" > /tmp/cm/$ID-rerun.txt
  serial_ok=0
  for attempt in 1 2; do
    if timeout 1500 /venv/bin/python -m pytest -q -p no:cacheprovider --timeout=900 $(cat /tmp/cm/$ID-rerun.txt | tr '\n' ' ') > /tmp/cm/$ID-rerun.log 2>&1; then serial_ok=1; break; fi
  done
  grep -E "passed|failed" /tmp/cm/$ID-rerun.log | tail -1
fi
echo "serial_ok=$serial_ok"
if [ $rc_clean -eq 0 ] && [ $rc_mut -ne 0 ] && [ $serial_ok -eq 1 ]; then
  D=/verif/seeded/$ID; mkdir -p $D
  cp $SRC/patch.diff $D/patch.diff; cp $SRC/demo.py $D/demo.py; cp $SRC/notes.md $D/notes.md 2>/dev/null
  git diff HEAD -- cubed > $D/patch_on_head.diff
  echo "CONFIRMED $ID"
else
  echo "NOT-CONFIRMED $ID rc_clean=$rc_clean rc_mut=$rc_mut serial_ok=$serial_ok"
fi
} > $LOG 2>&1
cd /; git -C /repo worktree remove --force $WT; rm -rf $WT
tail -3 $LOG
