"""Debug helper: run one index of a check in-process and print details."""
import sys, json, faulthandler
faulthandler.dump_traceback_later(300, exit=True)
sys.path.insert(0, '/verif')
from checks import common
name = sys.argv[1]; idx = int(sys.argv[2]); tier = sys.argv[3] if len(sys.argv) > 3 else 'quick'
mod = common.load_check(name)
case, res = common.run_one(mod, 0, idx, tier)
print(json.dumps({k: v for k, v in case.items()}, default=str)[:3000])
print(res['outcome'])
for v in res['violations']: print(v)
if hasattr(mod, 'debug'): mod.debug(case)
