"""Generate /verif/MANIFEST.json from the table below (keeps it consistent and valid)."""
import json
import os
import sys

VERIF = os.path.dirname(os.path.dirname(os.path.abspath(__file__)))

TECH = "deterministic simulation with fault injection: seeded search over schedules, faults and workloads on a virtual-time event loop + simulated pool + traced store"

CHECKS = {
    "C01": dict(cat="exploration", ref="DESIGN.md 5 (C01)",
                text="Seeded exploration: generated programs are computed by the real cubed stack under the simulator (three real local executors on a simulated pool/loop/store, optimizer on/off and variants, task modes, schedules) and compared element-wise with a NumPy shadow. Sampling, not proof; the executor/schedule/optimizer dimensions are what the simulator adds, the input dimensions are sampled by the workload generator.",
                note="NumPy is the reference model; Zarr/NumPy behave as documented; storage contract: atomic, immediately visible single-key writes; small scopes (extent <= 12 quick / 40 thorough, <= 8/16 steps)."),
    "C02": dict(cat="exploration", ref="DESIGN.md 5 (C02)",
                text="Differential exploration inside one simulated run: the same requested arrays computed unoptimized and, from an emptied store, under a seeded optimizer setting; results must be equal (exactly for exact data), equal NumPy, and every requested array must be fully present in the simulated store afterwards.",
                note="Same as C01; the schedule dimension adds little here, the simulator contributes the store-level materialisation check and executor variety."),
    "C03": dict(cat="exploration", ref="DESIGN.md 5 (C03)",
                text="Measurement-based exploration: the simulator runs exactly one task body at a time and brackets it with tracemalloc; the traced peak of every task must stay within the operation's projected memory (MB-sized chunks, reserved_mem absorbs interpreter noise).",
                note="tracemalloc sees NumPy buffers and Python-level allocations only; allocations inside C libraries without tracemalloc hooks are not seen; sampled geometries."),
    "C04": dict(cat="exploration", ref="DESIGN.md 5 (C04)",
                text="Seeded exploration around the admission boundary: each program is rebuilt with allowed_mem in {P-1, P, P+1} of its own projected maximum; over budget => ValueError, executor never entered, store trace shows no set/delete/data get; otherwise execution proceeds; fused projected memory >= constituents; default optimization never pushes a fitting plan over budget.",
                note="I/O-absence decided at the simulator's seams (store trace, executor entry); planning-level checks are pure and ride along."),
    "C05": dict(cat="exploration", ref="DESIGN.md 5 (C05)",
                text="History invariant over the simulated store trace plus write monitor (one writer task per stored key, geometrically whole-chunk writes, full coverage of every output grid) and its consequence under two-phase overlapping execution (values still equal NumPy).",
                note="Write monitor wraps zarr.Array.__setitem__; storage contract as in C01."),
    "C06": dict(cat="fault_enumeration", ref="DESIGN.md 5 (C06)",
                text="Fault/schedule enumeration by seeded sampling: reference execution versus adversarial executions of the same program (task order permutations, failed attempts after the body wrote, backups, zombie re-executions landing after later operations, cloudpickle shipping); every stored chunk and the final results must be identical and every repeated write of a key byte-identical.",
                note="Zombie re-execution models the thread Future.cancel() cannot stop; transient storage errors land inside task bodies (the retry re-reads); in 1/8 (quick) / 1/4 (thorough) of the runs task bodies execute in fresh interpreters from their pickled form (sim/remote.py, DESIGN.md II.8), elsewhere the processes path round-trips through cloudpickle in-process."),
    "C07": dict(cat="exploration", ref="DESIGN.md 5 (C07)",
                text="Seeded exploration of the interleavings the real async_map_dag / SingleThreadedExecutor admit under adversarial pool timing and late-landing writes; invariants on the store trace and event log (no consumer read before the final commit of a key, create-arrays first, operation barriers) and final values.",
                note="Concurrency modelled at store-operation granularity (read instant, per-write commit instants); Zarr-internal ordering within one call not examined."),
    "C08": dict(cat="fault_enumeration", ref="DESIGN.md 5 (C08)",
                text="Fault enumeration by seeded sampling (plus exhaustive small alphabet for n<=3): the real async_map_unordered with the real retry/pickle wrappers is driven on the virtual-time loop by scripted attempt outcomes and durations; oracle is a timing-free reference model (satisfiable inputs), structural bounds, bounded liveness; end-to-end layer injects storage faults on one chunk key under the real executors.",
                note="Real pools always resolve a future; a task attempt raises or returns; CPython 3.12 asyncio and tenacity semantics."),
    "C09": dict(cat="fault_enumeration", ref="DESIGN.md 5 (C09)",
                text="Crash-point enumeration: every commit boundary of a clean run (all when <= 64, else a seeded sample) is a crash point; the store goes down there, only durable state survives, compute(resume=True) must refuse up front or produce NumPy's values, skip exactly the operations whose outputs were complete, never delete or re-create existing chunks.",
                note="Durability model: committed single-key writes are atomic and durable, buffered ones are lost; torn writes are outside cubed's stated storage contract."),
    "C10": dict(cat="exploration", ref="DESIGN.md 5 (C10)",
                text="History exploration: seeded sequences of API calls (derive, compute subsets, store/to_zarr eager/lazy, recompute, config change, crash+resume) over one pool of related lazy arrays; after every step chosen arrays must compute to the NumPy shadow fixed at derivation and inputs/earlier targets must be byte-identical.",
                note="History length <= 12 (quick) / 40 (thorough)."),
    "C11": dict(cat="exploration", ref="DESIGN.md 5 (C11)",
                text="Seeded exploration of store/to_zarr call shapes (sources x targets x regions x eager/lazy x repeated sources x executors incl. two-phase overlap); targets are pre-filled with a sentinel and read back with plain Zarr; rejected regions must leave the target store digest unchanged.",
                note="Sentinel-based: elements outside the region must be untouched; pre-histories on the same lazy source objects (computed / stored elsewhere before); a validation error is a rejection whenever it arrives."),
    "C12": dict(cat="exploration", ref="DESIGN.md 5 (C12)",
                text="Invariant checked while each simulated run proceeds: every array write of every task has value.shape == selected region shape (write monitor), and declared shape/dtype/chunks equal the result and the backing Zarr array.",
                note="Task writes go through zarr.Array.__setitem__; a second phase stores a requested array lazily into an existing array of other chunking and uses the returned array."),
    "C13": dict(cat="exploration", ref="DESIGN.md 5 (C13)",
                text="Seeded exploration over programs x executors x options; a recording Callback and the simulated pool give per-operation counts (advertised, mappable length, bodies executed, task-end notifications) and the event order, checked against the finalized plan.",
                note="No faults and no backups in this configuration (retries/backups would legitimately add bodies)."),
    "C16": dict(cat="exploration", ref="DESIGN.md 5 (C16)",
                text="I/O-absence at the simulator's seams: every public callable with generated arguments, compositions, plan() and visualize() run with SimStore as every store and a recording pool; no set/delete/data get, no metadata key, executor never entered - except for the documented eager entry points, for which execution must be observed.",
                note="No schedule involved; visualize output goes to a scratch directory."),
    "C17": dict(cat="exploration", ref="DESIGN.md 5 (C17)",
                text="Seeded exploration with a hostile parameter table; the executor seam separates build / plan / execute; exceptions before execution must be ValueError/TypeError/NotImplementedError/IndexError and nothing may fail after execution started on a fault-free simulator configuration.",
                note="'NumPy can evaluate it' is decided by the generator's NumPy shadow."),
    "C19": dict(cat="exploration", ref="DESIGN.md 5 (C19)",
                text="Configuration swarm: the same program built and computed under three of nine resource configurations per run; acceptance (per-step declines, phase/class of compute errors) and values must agree across variants and with NumPy.",
                note="allowed_mem >= 2 GB in every variant so admission cannot differ; work_dir variants use a scratch directory."),
    "C20": dict(cat="exploration", ref="DESIGN.md 5 (C20)",
                text="Multi-interpreter histories: a child interpreter with its own name counters builds and cloudpickles arrays; the parent (having created a seeded number of arrays) computes them alone and combined with local arrays under the simulator; NumPy shadow as oracle.",
                note="Children run one at a time and are pure functions of their seed."),
}

NA = [
    ("C14", "pure function of integer arguments (rechunk planner); no schedule, clock, fault or I/O in the statement - see DESIGN.md section 6"),
    ("C15", "pure function from block coordinates to block coordinates (key functions and their fusion); not a simulation target - see DESIGN.md section 6"),
    ("C18", "API-surface sweep over pairs of specs plus a string parser; no runtime behaviour for a simulator to own - see DESIGN.md section 6"),
]


def main():
    built = [f[:-3].upper() for f in sorted(os.listdir(os.path.join(VERIF, "checks")))
             if f.startswith("c") and f[1:3].isdigit() and f.endswith(".py") and len(f) == 6]
    checks = []
    for pid in sorted(CHECKS):
        if pid not in built:
            continue
        c = CHECKS[pid]
        checks.append(dict(
            property_id=pid,
            quick_cmd=f"timeout 3000 ./check {pid} --tier quick",
            thorough_cmd=f"timeout 7200 ./check {pid} --tier thorough",
            evidence_file=f"/verif/evidence/{pid}.json",
            replay_cmd_template=f"./check {pid} --replay {{path}}",
            engine="cubed-dst",
            level_claimed=dict(category=c["cat"], text=c["text"], design_ref=c["ref"]),
            level_note=c["note"],
            technique=TECH,
        ))
    na = [dict(property_id=p, reason=r) for p, r in NA]
    for pid in sorted(CHECKS):
        if pid not in built:
            na.append(dict(property_id=pid, reason="check designed (DESIGN.md section 5) but not built yet; not claimed until it runs"))
    m = dict(
        version=1,
        setup_cmd="./setup.sh",
        hooks=dict(
            guard="CUBED_VERIF",
            enable="no source hook exists (source_commits is empty): checks import cubed from /repo's working tree (editable install in /venv) and patch existing seams from outside - executors' pool class names, asyncio event-loop policy, the time module of cubed.runtime.*, Spec(intermediate_store=SimStore)",
            baseline_off_cmd="cd /repo && /venv/bin/python -m pytest -ra -q -p no:cacheprovider --timeout=900 --continue-on-collection-errors",
            source_commits=[],
            add_only=True,
        ),
        engines=[dict(name="cubed-dst", path="/verif/sim", serves_properties=[c["property_id"] for c in checks],
                      kind_free_text="in-process deterministic simulator: virtual-time asyncio loop, simulated worker pool (atomic / two-phase / spread-commit tasks, stragglers, zombies), traced fault-injecting Zarr store, seeded tape, program generator with NumPy shadow")],
        checks=checks,
        notes="See DESIGN.md. Exit codes: 0 held, 1 VIOLATION line printed, 2 harness error. known_findings.json lists genuine defects recorded rather than repaired (KNOWN-FINDING lines) and the defects repaired by fix: commits in /repo.",
        not_applicable=na,
    )
    with open(os.path.join(VERIF, "MANIFEST.json"), "w") as f:
        json.dump(m, f, indent=1)
    print("checks:", [c["property_id"] for c in checks])
    print("not_applicable:", [n["property_id"] for n in na])


if __name__ == "__main__":
    sys.exit(main())
