#!/bin/bash
# tools/regress_mutants.sh : run every seeded change against the check(s) recorded as catching it.
# Must not run concurrently with anything else that uses /repo.
cd /verif
python3 - <<'PY' > /tmp/regress_plan.txt
import json, glob, os
for d in sorted(glob.glob('/verif/seeded/*/meta.json')):
    m = json.load(open(d))
    checks = list(m['caught_by'].keys()) or [m['breaks_property']]
    print(m['id'], checks[0])
PY
while read id chk; do
  runs=""
  case $chk in C03) runs=192;; C20) runs=96;; C09) runs=160;; C10) runs=300;; C19) runs=450;; C08) runs=24000;; C04) runs=600;; *) runs=1600;; esac
  out=$(RUNS=$runs tools/try_mutant.sh /verif/seeded/$id/patch.diff $chk 2>&1)
  rc=$(echo "$out" | grep -E "^== $chk exit=" | sed 's/.*exit=//')
  cls=$(echo "$out" | grep -E "^  class=" | head -1 | cut -c1-120)
  echo "$id $chk exit=$rc $cls"
done < /tmp/regress_plan.txt
