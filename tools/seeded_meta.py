"""Write /verif/seeded/<id>/meta.json from the table below (results of running the checks
against each seeded change: tools/try_mutant.sh <patch> <checks...>)."""
import json
import os

S = "/verif/seeded"
T = {
 "C05-a": dict(property="C05", needs="rechunk(..., allow_irregular=False) with a budget forcing >= 2 stages, so that the first copy op's copy chunks are not a multiple of the regular intermediate chunks it stores; overlapping tasks for actual loss",
               caught_by={"C05": "stored_chunk_written_by_several_tasks (store trace: two tasks commit one key of the intermediate array)"},
               note="missed at first (generator only used allow_irregular=True and tiny arrays); caught after the rechunk-plan scenario (larger 2-d/3-d arrays, budgets between one chunk and the array, allow_irregular / min_mem parameters) was added to C05"),
 "C05-b": dict(property="C05", needs="store into an existing sharded Zarr array whose shard shape is a multiple of the source chunks; overlapping tasks",
               caught_by={"C05": "stored_chunk_written_by_several_tasks + wrong_value_under_interleaving", "C11": "target_content_wrong (two-phase / spread commit)"}),
 "C06-a": dict(property="C06", needs="create-arrays task re-executed (retry/backup/zombie) after a later operation wrote chunks, or resume",
               caught_by={"C06": "adversarial_run_failed / store_keys_differ / wrong_value (zombie create task wipes written chunks)", "C09": "delete_during_resume / wrong_value_after_resume"}),
 "C06-b": dict(property="C06", needs="processes executor + batch_size < tasks or backups, >= 2 operations whose unnamed (refill/backup) submissions reach one worker: worker-side unpickle cache keyed by the 'name' kwarg",
               caught_by={"C06": "adversarial_run_failed / store_keys_differ / wrong_value; replays need the history prefix because the cache is process-global state"}),
 "C07-a": dict(property="C07", needs="compute_arrays_in_parallel=True, an op with a repeated input plus another input produced deeper in the DAG (parallel edges miscounted in generation traversal)",
               caught_by={"C07": "premature_read (consumer task reads a chunk before its final commit) + operation_started_before_producer_finished"}),
 "C07-b": dict(property="C07", needs="batch_size set and every in-flight task finishing in one wait round while batches remain (batch top-up moved before the wait)",
               caught_by={"C07": "read_of_never_written_chunk / wrong_value", "C08": "finished_without_submitting_input", "C13": "task_count_mismatch"}),
 "C08-a": dict(property="C08", needs="use_backups with a backup launched, original and backup both failing in different wait rounds",
               caught_by={"C08": "finished_despite_unsatisfiable_input"}),
 "C08-b": dict(property="C08", needs="batch_size < n and all pending tasks completing in one round",
               caught_by={"C08": "finished_without_submitting_input"}),
 "C09-a": dict(property="C09", needs="multi-output op, crash between the write of output 0 and output 1 of its last task, then resume",
               caught_by={"C09": "wrong_value_after_resume + computed_mark_mismatch"}),
 "C09-b": dict(property="C09", needs="an array with an all-fill chunk; resume after its op finished (write_empty_chunks only at create time)",
               caught_by={"C09": "delete_during_resume (all-fill chunk deleted instead of written) / complete_array_recomputed", "C05": "output_chunks_not_covered"}),
 "C10-a": dict(property="C10", needs="compute x (in-process executor), then to_zarr/store the same x: cached opened array handle in CubedArrayProxy survives the in-place re-target",
               caught_by={"C10": "earlier_target_changed / earlier_target_unreadable"}),
 "C10-b": dict(property="C10", needs="compute(resume=True) of a plan containing an already complete lazily-created array (create mode 'w' + overwrite)",
               caught_by={"C10": "earlier_target_changed / value_changed_by_history", "C09": "delete_during_resume"}),
 "C11-a": dict(property="C11", needs="region store whose stop is unaligned, not the array end, and inside the target's last chunk (>= 2 wide)",
               caught_by={"C11": "target_content_wrong [elements outside the region changed]", "C05": "wrong_value_under_interleaving"},
               note="missed at first (generated regions always ended on a chunk boundary or at the array end); caught after 'tail' elements were added to region targets"),
 "C11-b": dict(property="C11", needs="existing target holding an axis in one chunk, source with >= 2 blocks on that axis, overlapping tasks",
               caught_by={"C11": "target_content_wrong", "C05": "stored_chunk_written_by_several_tasks"}),
 "C13-a": dict(property="C13", needs="threads/processes executor, compute_arrays_in_parallel=True, a generation with >= 2 ops (late-binding closure over the op name)",
               caught_by={"C13": "operation_event_count"}),
 "C13-b": dict(property="C13", needs="region store up to the ragged edge of a target whose extent is not a multiple of its chunk size",
               caught_by={"C13": "task_count_mismatch (advertised < executed)"}),
 "C16-a": dict(property="C16", needs="clip(x, lo, hi) with a 0-d cubed array bound: min > max triggers __bool__ -> compute while building",
               caught_by={"C16": "store_side_effect_in_lazy_call / execution_in_lazy_call for cubed.clip"},
               note="missed at first (generic calls only passed python scalars as bounds); caught after argument variants with 0-d cubed arrays in scalar positions were added"),
 "C16-b": dict(property="C16", needs="lazy to_zarr/store (compute=False) onto a path/store that already holds an array of different geometry",
               caught_by={"C16": "store_side_effect_in_lazy_call (delete + zarr.json rewrite during the lazy call)"},
               note="missed at first (lazy stores only targeted fresh locations); caught after pre-existing targets of different geometry were added"),
 "C20-a": dict(property="C20", needs="two interpreters; the receiver has already planned/computed a same-named local array with the same optimize arguments; the shipped array computed alone",
               caught_by={"C20": "alone_failed:ArrayNotFoundError"},
               note="missed at first; caught after the exact-twin (receiver builds the same program from the same counters) and local-first orderings were added, and after failures of the alone computation were separated from the known name-collision finding"),
 "C02-a": dict(property="C02", needs="always_fuse / fuse_all / fuse_only optimizer and >= 2 requested arrays one of which is the sole-consumer input of another",
               caught_by={"C02": "optimized_plan_failed_in_execution:ArrayNotFoundError (requested array fused away and never written)"}),
 "C02-b": dict(property="C02", needs="optimize_function=simple_optimize_dag, fused pair whose predecessor has >= 2 distinct inputs, a later input produced deeper in the DAG (dependency edge dropped)",
               caught_by={"C02": "optimized_differs_from_unoptimized (fill values read)"},
               note="missed at 600 runs while the legacy optimizer was sampled in 1/18 of the runs (it had been throttled because of the known finding); caught at the quick budget after its weight was raised to 3/20"),
 "C04-a": dict(property="C04", needs="forced-fusion optimizer, an op with >= 2 fusable multi-input predecessors, allowed_mem between the unfused and the fused projection (admission check looks at the unoptimized plan)",
               caught_by={"C04": "plan_exceeds_memory_flag_wrong / over_budget_plan_executed / executor_entered_for_over_budget_plan"}),
 "C04-b": dict(property="C04", needs="default optimizer, same geometry, allowed_mem between unfused and fused projection (memory guard skipped when max_total_num_input_blocks is set)",
               caught_by={"C04": "optimization_pushed_plan_over_budget"}),
 "C12-a": dict(property="C12", needs="partial_reduce / tree_reduce called directly on unreduced chunks with initial_func=None and a group of one block, output materialised",
               caught_by={},
               note="NOT caught, and not strengthened: by the seeder's own analysis no public function reaches the changed branch with an unreduced block (every public reduction reduces each block first); a direct tree_reduce op was tried and withdrawn because calling the helper on unreduced single-block axes is outside its contract on the unchanged tree too (it returns the input unreduced)"),
 "C12-b": dict(property="C12", needs="sum/prod/cumulative_* of an unsigned integer array without dtype= (dict keyed by scalar types misses np.dtype instances)",
               caught_by={"C01": "wrong_value (int64 instead of uint64 results wrap negative after e.g. bitwise_invert)"},
               note="C12 itself stays quiet: declared and computed dtype agree with each other (both int64); that the declared dtype is not the one NumPy / the array API prescribe is a value-level disagreement, which C01 reports"),
 "C20-b": dict(property="C20", needs="unpickling winds the local name counters backwards; new arrays built afterwards combined with older local arrays",
               caught_by={"C20": "wrong_value_combined / compute_failed (IndexError, NetworkXUnfeasible, broadcasting)"}),
}

for mid, m in T.items():
    d = os.path.join(S, mid)
    if not os.path.isdir(d):
        continue
    meta = dict(id=mid, breaks_property=m["property"], needs_to_manifest=m["needs"],
                confirmed="tools/confirm_mutant.sh: patch applies to /repo HEAD in a scratch worktree; demo.py exits 0 on the clean tree and non-zero with the change; existing suite (-k 'not spark and not hypothesis', load-flaky wall-clock tests re-run alone) has no failure among BASELINE stable_pass tests",
                ran="tools/try_mutant.sh <patch> <checks> (git apply to /repo, quick checks, git reset --hard)",
                caught_by=m["caught_by"], note=m.get("note", ""))
    with open(os.path.join(d, "meta.json"), "w") as f:
        json.dump(meta, f, indent=1)
    print("meta", mid)
