"""Determinism self-test.

For every engine/check: run N seeds twice in one interpreter (after unrelated
runs in between), once in a fresh interpreter under another PYTHONHASHSEED, and
diff the run digests (event log + store traces + results).

    tools/selftest_determinism.py [--n 40] [--checks C01,C08,...] [--seed S]
    tools/selftest_determinism.py --emit C01 0 40 S      (internal: print digests as JSON)
"""
import json
import os
import subprocess
import sys
import warnings

VERIF = os.path.dirname(os.path.dirname(os.path.abspath(__file__)))
sys.path.insert(0, VERIF)
warnings.filterwarnings("ignore")

ALL = ["C01", "C02", "C03", "C04", "C05", "C06", "C07", "C08", "C09", "C10", "C11", "C12", "C13", "C16", "C17", "C19"]  # C20 spawns child interpreters (scratch paths differ per run)


def digests(name, lo, hi, seed, tier="quick"):
    import numpy as np

    np.seterr(all="ignore")
    from checks import common

    mod = common.load_check(name)
    out = []
    for i in range(lo, hi):
        case, res = common.run_one(mod, seed, i, tier)
        out.append(res["digest"])
    return out


def digests_in_forked_child(name, lo, hi, seed):
    """The batch driver runs every chunk in a forked child of a process that has imported everything
    but executed nothing: the same here (catches fork-related state such as Zarr resetting its IO loop)."""
    import pickle

    r, w = os.pipe()
    pid = os.fork()
    if pid == 0:
        try:
            os.close(r)
            with os.fdopen(w, "wb") as f:
                f.write(pickle.dumps(digests(name, lo, hi, seed)))
        finally:
            os._exit(0)
    os.close(w)
    with os.fdopen(r, "rb") as f:
        data = f.read()
    os.waitpid(pid, 0)
    return pickle.loads(data)


def main():
    a = sys.argv[1:]
    if a and a[0] == "--emit":
        name, lo, hi, seed = a[1], int(a[2]), int(a[3]), int(a[4])
        print("DIGESTS " + json.dumps(digests(name, lo, hi, seed)))
        return 0
    n = 30
    checks = None
    seed = 12345
    i = 0
    while i < len(a):
        if a[i] == "--n":
            n = int(a[i + 1]); i += 2
        elif a[i] == "--checks":
            checks = a[i + 1].split(","); i += 2
        elif a[i] == "--seed":
            seed = int(a[i + 1]); i += 2
        else:
            i += 1
    checks = checks or [c for c in ALL if os.path.exists(os.path.join(VERIF, "checks", c.lower() + ".py"))]
    bad = 0
    for name in checks:
        d0 = digests_in_forked_child(name, 0, n, seed)  # first: the parent has executed nothing yet
        d1 = digests(name, 0, n, seed)
        # unrelated work in between (other seeds), then again in the same interpreter
        digests(name, n, n + 5, seed + 1)
        d2 = digests(name, 0, n, seed)
        outs = []
        for hs in ("7", "123"):
            env = dict(os.environ, PYTHONHASHSEED=hs, PYTHONDONTWRITEBYTECODE="1")
            p = subprocess.run([sys.executable, __file__, "--emit", name, "0", str(n), str(seed)],
                               capture_output=True, text=True, env=env, timeout=3000)
            line = [ln for ln in p.stdout.splitlines() if ln.startswith("DIGESTS ")]
            if not line:
                print(f"{name}: fresh interpreter (PYTHONHASHSEED={hs}) failed: {p.stderr[-500:]}")
                bad += 1
                outs.append(None)
                continue
            outs.append(json.loads(line[0][8:]))
        same12 = sum(1 for x, y in zip(d1, d2) if x == y)
        msg = f"{name}: same-interpreter {same12}/{n}"
        for hs, o in zip(("7", "123"), outs):
            if o is not None:
                s = sum(1 for x, y in zip(d1, o) if x == y)
                msg += f", fresh(hashseed={hs}) {s}/{n}"
                if s != n:
                    bad += 1
                    idx = [k for k, (x, y) in enumerate(zip(d1, o)) if x != y][:5]
                    msg += f" MISMATCH at indices {idx}"
        sf = sum(1 for x, y in zip(d1, d0) if x == y)
        msg += f", forked-child {sf}/{n}"
        if sf != n:
            bad += 1
            msg += f" MISMATCH(fork) at {[k for k, (x, y) in enumerate(zip(d1, d0)) if x != y][:5]}"
        if same12 != n:
            bad += 1
            msg += f" MISMATCH(same interpreter) at {[k for k, (x, y) in enumerate(zip(d1, d2)) if x != y][:5]}"
        print(msg, flush=True)
    print("DETERMINISM", "OK" if bad == 0 else f"FAILED ({bad})")
    return 0 if bad == 0 else 1


if __name__ == "__main__":
    sys.exit(main())
