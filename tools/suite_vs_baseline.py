"""Compare a pytest log (short test summary 'FAILED path::name') with BASELINE.json stable_pass."""
import json, re, sys
b = json.load(open('/root/.vp/BASELINE.json'))
stable = set(b['stable_pass'])
failed = set()
for ln in open(sys.argv[1]):
    m = re.match(r'(FAILED|ERROR) (\S+?)\.py::(\S+)', ln)
    if m:
        failed.add(m.group(2).replace('/', '.') + '::' + m.group(3))
bad = sorted(failed & stable)
print(f"failed={len(failed)} stable_pass_failed={len(bad)}")
for x in bad[:20]: print("  STABLE-FAIL", x)
sys.exit(1 if bad else 0)
