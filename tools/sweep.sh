#!/bin/bash
# tools/sweep.sh <seed> [checks...] : run quick checks under a given VERIF_SEED, summarise alarms
seed=$1; shift
checks=${@:-C01 C02 C03 C04 C05 C06 C07 C08 C09 C10 C11 C12 C13 C16 C17 C19 C20}
mkdir -p /tmp/sweep
for c in $checks; do
  t0=$(date +%s)
  VERIF_SEED=$seed timeout 3000 ./check $c --tier quick > /tmp/sweep/$c-s$seed.log 2>&1
  rc=$?
  echo "$c seed=$seed exit=$rc $(( $(date +%s) - t0 ))s $(grep -E '^VIOLATION|^HARNESS' /tmp/sweep/$c-s$seed.log | wc -l) alarms"
done
