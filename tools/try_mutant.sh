#!/bin/bash
# tools/try_mutant.sh <patch.diff> <check ids...> : apply the patch to /repo, run the quick checks, undo.
patch=$1; shift
cd /repo || exit 2
if [ -n "$(git status --porcelain -- cubed)" ]; then echo "repo dirty"; exit 2; fi
git apply "$patch" 2>/dev/null || git apply -3 "$patch" || { echo "PATCH DOES NOT APPLY"; git reset -q --hard HEAD; exit 3; }
cd /verif
for c in "$@"; do
  out=$(timeout 3000 ./check $c --tier quick ${RUNS:+--runs $RUNS} 2>&1)
  rc=$?
  echo "== $c exit=$rc"
  echo "$out" | grep -E "^VIOLATION|^  class|^HARNESS|^\[" | cut -c1-400 | head -12
done
git -C /repo reset -q --hard HEAD; git -C /repo status --porcelain -- cubed | head -3
