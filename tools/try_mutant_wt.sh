#!/bin/bash
# tools/try_mutant_wt.sh <patch.diff> <check ids...> : like try_mutant.sh, but the change is applied to a scratch
# worktree of /repo that is put first on PYTHONPATH (so several trials can run side by side and /repo stays untouched);
# evidence and replay files go to a scratch directory. The registered way (git -C /repo apply; checks; checkout) is
# tools/try_mutant.sh; both import the same cubed sources.
patch=$(readlink -f "$1"); shift
tag=$(echo "$patch" | md5sum | cut -c1-8)
WT=/tmp/mutwt/$tag
mkdir -p /tmp/mutwt; rm -rf $WT; git -C /repo worktree prune
git -C /repo worktree add --detach -q $WT HEAD || exit 2
cd $WT
git apply "$patch" 2>/dev/null || git apply -3 "$patch" || { echo "PATCH DOES NOT APPLY"; cd /; git -C /repo worktree remove --force $WT; exit 3; }
cd /verif
export PYTHONPATH=$WT VERIF_EVIDENCE_DIR=$WT/_ev VERIF_REPLAY_DIR=$WT/_rp
for c in "$@"; do
  out=$(timeout 3000 ./check $c --tier quick ${RUNS:+--runs $RUNS} ${PROCS:+--procs $PROCS} 2>&1)
  rc=$?
  echo "== $c exit=$rc"
  echo "$out" | grep -E "^VIOLATION|^  class|^HARNESS|^KNOWN|^\[" | cut -c1-400 | head -12
done
cd /; git -C /repo worktree remove --force $WT; rm -rf $WT
