"""Demo for change c: stack() with the new axis counted from the end.

stack(arrays, axis) must have the same shape and values as numpy.stack for
every valid axis in [-(ndim+1), ndim], for inputs that are chunked alike or
differently, with graph optimization on or off.
"""
import sys
import tempfile

import numpy as np

import cubed
import cubed.array_api as xp


def main():
    failures = []
    rng = np.random.default_rng(42)
    an = rng.integers(0, 100, size=(4, 6))
    bn = rng.integers(0, 100, size=(4, 6))
    cn = rng.integers(0, 100, size=(4, 6))
    vn = np.arange(5)
    wn = np.arange(5) * 10
    with tempfile.TemporaryDirectory() as tmp:
        spec = cubed.Spec(work_dir=tmp, allowed_mem="200MB")

        def mk(a, chunks):
            return xp.asarray(a, chunks=chunks, spec=spec)

        cases = []
        # 2-d inputs: the result is 3-d, so valid axes are -3..2
        for axis in (0, 1, 2, -1, -2, -3):
            cases.append(
                (
                    f"stack of three (4,6) arrays chunked (2,3), axis={axis}",
                    (lambda axis=axis: xp.stack(
                        [mk(an, (2, 3)), mk(bn, (2, 3)), mk(cn, (2, 3))], axis=axis
                    )),
                    np.stack([an, bn, cn], axis=axis),
                )
            )
        # inputs chunked differently from each other
        for axis in (0, -1):
            cases.append(
                (
                    f"stack of two (4,6) arrays chunked (2,3)/(3,2), axis={axis}",
                    (lambda axis=axis: xp.stack([mk(an, (2, 3)), mk(bn, (3, 2))], axis=axis)),
                    np.stack([an, bn], axis=axis),
                )
            )
        # 1-d inputs: valid axes are -2..1
        for axis in (0, 1, -1, -2):
            cases.append(
                (
                    f"stack of two (5,) arrays chunked (2,), axis={axis}",
                    (lambda axis=axis: xp.stack([mk(vn, (2,)), mk(wn, (2,))], axis=axis)),
                    np.stack([vn, wn], axis=axis),
                )
            )

        for name, build, expected in cases:
            for optimize_graph in (True, False):
                try:
                    r = build()
                    got = np.asarray(r.compute(optimize_graph=optimize_graph))
                    declared = tuple(r.shape)
                    ok = (
                        declared == expected.shape
                        and got.shape == expected.shape
                        and np.array_equal(got, expected)
                    )
                    detail = f"declared shape {declared}, computed shape {got.shape}, numpy shape {expected.shape}"
                except Exception as e:  # an explicit refusal is not a wrong value
                    ok, got = None, None
                    detail = f"raised {type(e).__name__}: {e}"
                tag = {True: "ok  ", False: "FAIL", None: "err "}[ok]
                print(f"{tag} {name}, optimize_graph={optimize_graph}: {detail}")
                if ok is False:
                    failures.insert(0, (name, optimize_graph, got, expected))
                elif ok is None:
                    # an axis that NumPy accepts was refused: not a wrong value, but still a difference
                    failures.append((name, optimize_graph, detail, expected))

    if failures:
        name, opt, got, expected = failures[0]
        got_shape = getattr(got, "shape", None)
        raise AssertionError(
            f"{len(failures)} case(s) differ from numpy.stack; e.g. {name} "
            f"(optimize_graph={opt}): cubed returned shape {got_shape}, numpy shape {expected.shape}"
            f"\n cubed:\n{got}\n numpy:\n{expected}"
        )
    print("all cases equal NumPy")


if __name__ == "__main__":
    try:
        main()
    except AssertionError as e:
        print("ASSERTION FAILED:", e, file=sys.stderr)
        sys.exit(1)
