"""Demo for change d: searchsorted over a sorted array that is cut into three
or more chunks.

searchsorted(x1, x2) must equal numpy.searchsorted for every chunking of x1
and x2, for both sides, and with graph optimization on or off.
"""
import sys
import tempfile

import numpy as np

import cubed
import cubed.array_api as xp


def main():
    failures = []
    x1n = np.array([-10, -3, 0, 0, 4, 7, 7, 7, 12, 20, 31, 31, 40])
    x2n = np.array([[-20, -10, 0, 5], [7, 8, 31, 32], [40, 41, 12, 3]])
    with tempfile.TemporaryDirectory() as tmp:
        spec = cubed.Spec(work_dir=tmp, allowed_mem="200MB")
        # (x1 chunk size, x2 chunks); 13 elements -> 1, 2, 3, 4, 5, 7 and 13 chunks
        cases = [
            (13, (2, 2)),
            (7, (2, 2)),
            (5, (2, 3)),
            (4, (3, 4)),
            (3, (1, 2)),
            (2, (2, 2)),
            (1, (3, 4)),
        ]
        for c1, c2 in cases:
            for side in ("left", "right"):
                for optimize_graph in (True, False):
                    x1 = xp.asarray(x1n, chunks=c1, spec=spec)
                    x2 = xp.asarray(x2n, chunks=c2, spec=spec)
                    r = xp.searchsorted(x1, x2, side=side)
                    got = np.asarray(r.compute(optimize_graph=optimize_graph))
                    expected = np.searchsorted(x1n, x2n, side=side)
                    ok = got.shape == expected.shape and np.array_equal(got, expected)
                    nblocks = x1.numblocks[0]
                    print(
                        f"{'ok  ' if ok else 'FAIL'} x1 in {nblocks} chunk(s) of {c1}, "
                        f"x2 chunks {c2}, side={side}, optimize_graph={optimize_graph}"
                    )
                    if not ok:
                        failures.append((c1, c2, side, optimize_graph, got, expected))

    if failures:
        c1, c2, side, opt, got, expected = failures[0]
        raise AssertionError(
            f"{len(failures)} case(s) differ from numpy.searchsorted; first: x1 chunks {c1}, "
            f"x2 chunks {c2}, side={side}, optimize_graph={opt}\n cubed:\n{got}\n numpy:\n{expected}"
        )
    print("all cases equal NumPy")


if __name__ == "__main__":
    try:
        main()
    except AssertionError as e:
        print("ASSERTION FAILED:", e, file=sys.stderr)
        sys.exit(1)
