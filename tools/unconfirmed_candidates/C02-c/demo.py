"""Demo for change `c` (property C02: graph optimization never changes computed values).

An array produced by a *streaming* operation (one whose block function is fed an
iterator of input blocks: indexing/selection, concat, partial reductions, ...) is
passed TWICE to the same operation (a repeated argument, e.g. ``multiply(b, b)``),
and the producer is fused into the consumer by the optimizer.

The optimized result must equal the result computed with ``optimize_graph=False``.
"""

import shutil
import sys
import tempfile
from functools import partial

import numpy as np

import cubed
import cubed.array_api as xp
from cubed.core.optimization import fuse_all_optimize_dag, multiple_inputs_optimize_dag


def build_cases(spec):
    an = np.arange(1.0, 61.0).reshape(10, 6)  # no zeros, all values distinct
    cases = []

    # 1. selection whose output chunks are assembled from two input chunks
    a = xp.asarray(an, chunks=(4, 3), spec=spec)
    b = a[1:9, :]
    cases.append(("multiply(b, b), b = a[1:9]", xp.multiply(b, b), an[1:9] * an[1:9]))

    # 2. same, with an elementwise op between the selection and the repeated use
    a = xp.asarray(an, chunks=(4, 3), spec=spec)
    b = xp.negative(a[1:9, :])
    cases.append(("add(b, b), b = -a[1:9]", xp.add(b, b), -2 * an[1:9]))

    # 3. concat feeding a repeated argument
    a1 = xp.asarray(an, chunks=(4, 3), spec=spec)
    a2 = xp.asarray(an + 100, chunks=(4, 3), spec=spec)
    b = xp.concat([xp.negative(a1), xp.negative(a2)], axis=0)
    e = -np.concatenate([an, an + 100], axis=0)
    cases.append(("add(b, b), b = concat([-a1, -a2])", xp.add(b, b), 2 * e))

    # 4. a reduction feeding a repeated argument
    a = xp.asarray(an, chunks=(4, 3), spec=spec)
    s = xp.sum(a, axis=0)
    cases.append(("multiply(s, s), s = sum(a, axis=0)", xp.multiply(s, s), an.sum(0) ** 2))

    return cases


def main():
    tmp = tempfile.mkdtemp(prefix="c02-demo-c-")
    failures = []
    try:
        spec = cubed.Spec(tmp, allowed_mem="500MB")
        optimizers = [
            ("default", None),
            (
                "multiple_inputs(max_total_num_input_blocks=40)",
                partial(multiple_inputs_optimize_dag, max_total_num_input_blocks=40),
            ),
            ("fuse_all", fuse_all_optimize_dag),
        ]
        for opt_name, opt_fn in optimizers:
            for label, arr, expected in build_cases(spec):
                unopt = arr.compute(optimize_graph=False)
                assert np.array_equal(unopt, expected), (
                    f"unoptimized result is wrong for {label} (demo bug?)"
                )
                try:
                    opt = arr.compute(optimize_graph=True, optimize_function=opt_fn)
                except Exception as exc:  # optimized run must not fail either
                    failures.append(f"[{opt_name}] {label}: optimized compute raised {exc!r}")
                    continue
                if not np.array_equal(opt, unopt):
                    failures.append(
                        f"[{opt_name}] {label}: optimized values differ from unoptimized values\n"
                        f"  unoptimized: {np.asarray(unopt).ravel()[:8]} ...\n"
                        f"  optimized:   {np.asarray(opt).ravel()[:8]} ..."
                    )
    finally:
        shutil.rmtree(tmp, ignore_errors=True)

    if failures:
        print("PROPERTY C02 VIOLATED: optimization changed what is computed")
        for f in failures:
            print(" -", f)
        raise AssertionError(
            f"{len(failures)} optimized computation(s) differ from optimize_graph=False"
        )
    print("OK: optimized results equal unoptimized results in all cases")


if __name__ == "__main__":
    main()
    sys.exit(0)
