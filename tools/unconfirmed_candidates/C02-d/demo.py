"""Demo for change `d` (property C02: graph optimization never changes computed values).

Uses the legacy map-fusion optimizer (``simple_optimize_dag``), which is one of the
supported ``optimize_function`` settings, on chains  x -> elementwise -> op2  where
op2 is a one-to-one blockwise operation whose *block grid* differs from that of its
input (a transpose of a non-square block grid, a new leading axis, a Zarr region
store at a non-zero offset).  Both operations have the same number of tasks, so the
legacy optimizer fuses them.

The optimized computation must produce exactly what ``optimize_graph=False`` produces.
"""

import shutil
import sys
import tempfile

import numpy as np
import zarr

import cubed
import cubed.array_api as xp
from cubed.core.optimization import simple_optimize_dag


def main():
    tmp = tempfile.mkdtemp(prefix="c02-demo-d-")
    failures = []
    try:
        spec = cubed.Spec(tmp, allowed_mem="500MB")
        an = np.arange(1.0, 25.0).reshape(4, 6)

        def source():
            return xp.asarray(an, chunks=(2, 2), spec=spec)  # 2 x 3 block grid

        cases = [
            # control: square block grid is unaffected
            (
                "negative(a).T, 2x2 block grid (control)",
                lambda: xp.permute_dims(
                    xp.negative(xp.asarray(an[:, :4], chunks=(2, 2), spec=spec)), (1, 0)
                ),
            ),
            (
                "negative(a).T, 2x3 block grid",
                lambda: xp.permute_dims(xp.negative(source()), (1, 0)),
            ),
            (
                "expand_dims(negative(a), axis=0)",
                lambda: xp.expand_dims(xp.negative(source()), axis=0),
            ),
            (
                "moveaxis(sqrt(a3d), 0, 2)",
                lambda: xp.moveaxis(
                    xp.sqrt(
                        xp.asarray(an.reshape(2, 3, 4), chunks=(1, 3, 2), spec=spec)
                    ),
                    0,
                    2,
                ),
            ),
        ]

        for label, build in cases:
            arr = build()
            unopt = arr.compute(optimize_graph=False)
            n_unopt = arr.plan(optimize_graph=False).num_tasks
            n_opt = arr.plan(optimize_function=simple_optimize_dag).num_tasks
            assert n_opt < n_unopt, f"{label}: expected the legacy optimizer to fuse"
            try:
                opt = arr.compute(optimize_function=simple_optimize_dag)
            except Exception as exc:
                failures.append(f"{label}: optimized compute raised {exc!r}")
                continue
            if not np.array_equal(opt, unopt):
                failures.append(f"{label}: optimized values differ\n{unopt}\n{opt}")

        # store target: write -a into an offset region of an existing Zarr array
        results = {}
        for mode, kwargs in [
            ("unoptimized", dict(optimize_graph=False)),
            ("legacy-optimized", dict(optimize_function=simple_optimize_dag)),
        ]:
            z = zarr.create_array(
                f"{tmp}/{mode}.zarr", shape=(8, 8), chunks=(2, 2), dtype="f8", fill_value=0
            )
            b = xp.negative(xp.asarray(an[:, :4], chunks=(2, 2), spec=spec))
            try:
                cubed.to_zarr(b, z, region=(slice(2, 6), slice(4, 8)), **kwargs)
                results[mode] = z[:]
            except Exception as exc:
                results[mode] = exc
        expected = np.zeros((8, 8))
        expected[2:6, 4:8] = -an[:, :4]
        assert isinstance(results["unoptimized"], np.ndarray) and np.array_equal(
            results["unoptimized"], expected
        ), "unoptimized region store is wrong (demo bug?)"
        if isinstance(results["legacy-optimized"], Exception):
            failures.append(
                f"to_zarr(negative(a), region=offset): optimized compute raised {results['legacy-optimized']!r}"
            )
        elif not np.array_equal(results["legacy-optimized"], expected):
            failures.append(
                "to_zarr(negative(a), region=offset): target contents differ\n"
                f"{results['legacy-optimized']}"
            )
    finally:
        shutil.rmtree(tmp, ignore_errors=True)

    if failures:
        print("PROPERTY C02 VIOLATED: the legacy optimizer changed what is computed")
        for f in failures:
            print(" -", f)
        raise AssertionError(
            f"{len(failures)} optimized computation(s) differ from optimize_graph=False"
        )
    print("OK: legacy-optimized results equal unoptimized results in all cases")


if __name__ == "__main__":
    main()
    sys.exit(0)
