"""C06 demo (change d): re-executing a task in the process that already ran it.

Tasks must be idempotent: running a task again (a retry after a fault, a backup task,
a duplicate that arrives after downstream operations have run) must leave exactly the
same values in every stored chunk.  This demo re-executes tasks of an indexing
operation (`a[2:14]`, built on map_selection) in-process:

  1. by hand, after the operation *and its downstream operation* have completed;
  2. through the ThreadsExecutor's own retry, after one injected transient write fault.

Uninitialised memory returned by `nxp.empty` inside cubed.core.ops is replaced by a
poison value so that a block that is not completely filled in is detected
deterministically (on a correct tree every element is overwritten, so poison never
reaches storage).

Run as:  PYTHONPATH=<worktree> /venv/bin/python demo.py
Exits 0 if the property holds, non-zero (AssertionError) otherwise.
"""

import sys
import tempfile
import threading

import numpy as np

import cubed
import cubed.array_api as xp
import cubed.core.ops as ops
import cubed.primitive.blockwise as bw
from cubed.runtime.executors.local import ThreadsExecutor
from cubed.runtime.pipeline import visit_nodes
from cubed.storage.zarr import open_if_lazy_zarr_array

POISON = -777.0


class PoisonedNamespace:
    """The backend namespace, except that `empty` returns poison instead of garbage."""

    def __init__(self, real):
        self._real = real

    def __getattr__(self, name):
        return getattr(self._real, name)

    def empty(self, shape, dtype=None, **kwargs):
        return self._real.full(shape, POISON, dtype=dtype)


def stored(arr):
    return np.asarray(open_if_lazy_zarr_array(arr._zarray)[...])


def build(tmp):
    spec = cubed.Spec(tmp, allowed_mem="200MB", reserved_mem=0)
    an = np.arange(1.0, 16 * 4 + 1).reshape(16, 4)
    a = xp.asarray(an, chunks=(4, 2), spec=spec)
    b = a[2:14]  # every output block is assembled from two input blocks
    c = xp.negative(b)  # downstream operation
    return an, a, b, c


def scenario_manual_duplicates(tmp, problems):
    an, a, b, c = build(tmp)
    plan = c.plan(optimize_graph=False)
    nodes = list(visit_nodes(plan.dag))  # create-arrays, op for b, op for c

    # reference: run every task of every operation exactly once, in order
    for _, node in nodes:
        p = node["pipeline"]
        for m in p.mappable:
            p.function(m, config=p.config)
    ref_b, ref_c = stored(b), stored(c)
    assert np.array_equal(ref_b, an[2:14]) and np.array_equal(ref_c, -an[2:14])

    # adversarial: duplicates of all tasks arrive after the downstream op has run
    # (as late backup tasks / stragglers do), in reverse order
    for _, node in nodes:
        p = node["pipeline"]
        for m in reversed(list(p.mappable)):
            p.function(m, config=p.config)
    dup_b, dup_c = stored(b), stored(c)
    for label, ref, dup in (("b = a[2:14]", ref_b, dup_b), ("c = -b", ref_c, dup_c)):
        if not np.array_equal(ref, dup):
            problems.append(
                f"[duplicates after downstream ops] stored chunks of {label} changed "
                f"when its tasks were executed a second time: "
                f"{int(np.sum(ref != dup))} of {ref.size} elements differ, e.g. row 0 "
                f"was {ref[0].tolist()} and is now {dup[0].tolist()}"
            )


def scenario_executor_retry(tmp, problems):
    an, a, b, c = build(tmp)

    # inject ONE transient OSError just before the first output block of the
    # computation is written; the threads executor retries the failed task
    real = bw.backend_array_to_numpy_array
    lock = threading.Lock()
    state = {"left": 1, "raised": 0}

    def flaky(arr):
        with lock:
            if state["left"] > 0:
                state["left"] -= 1
                state["raised"] += 1
                raise OSError("injected transient write error")
        return real(arr)

    bw.backend_array_to_numpy_array = flaky
    try:
        got = np.asarray(
            b.compute(executor=ThreadsExecutor(), optimize_graph=False, max_workers=1)
        )
    finally:
        bw.backend_array_to_numpy_array = real
    assert state["raised"] == 1
    if not np.array_equal(got, an[2:14]):
        problems.append(
            f"[retry after one transient write fault] a[2:14] computed with the threads "
            f"executor differs from the fault-free value in "
            f"{int(np.sum(got != an[2:14]))} of {got.size} elements; rows 0-1: "
            f"{got[:2].tolist()} (expected {an[2:4].tolist()})"
        )


def main():
    problems = []
    real_nxp = ops.nxp
    ops.nxp = PoisonedNamespace(real_nxp)
    try:
        with tempfile.TemporaryDirectory() as tmp:
            scenario_manual_duplicates(tmp + "/s1", problems)
            scenario_executor_retry(tmp + "/s2", problems)
    finally:
        ops.nxp = real_nxp

    if problems:
        print("C06 VIOLATED: re-executing a task changed the stored values")
        for p in problems:
            print(" -", p)
        raise AssertionError(" | ".join(problems))
    print("OK: re-executed tasks left exactly the same values in every stored chunk")


if __name__ == "__main__":
    main()
    sys.exit(0)
