"""C08 / change c: an input must be submitted at most twice (original + ONE backup).

Drives the real ``async_map_unordered`` with scripted asyncio futures and a
virtual clock (``cubed.runtime.asyncio.time`` is replaced by a fake whose
``monotonic()`` is under the control of the script, so nothing depends on
wall-clock time or machine load).

Scenario (use_backups=True, 10 inputs, no batching):
  t=0   10 originals submitted
  t=1   inputs 1..8 succeed                     (durations 1)
  t=10  input 9 succeeds                        -> input 0 is now a straggler, ONE backup is launched
  t=11  the backup of input 0 FAILS while the original is still running
        -> the failure must be suppressed (the original may still succeed) and
           NO further backup may be launched for input 0
  t=12  the original of input 0 succeeds        -> map completes, one result per input

Expected: exactly 2 submissions of input 0, results == {0..9} each exactly once.
"""

import asyncio
import sys
import types
from collections import Counter

import cubed
import cubed.runtime.asyncio as cra
from cubed.runtime.asyncio import async_map_unordered

print("cubed imported from", cubed.__file__)


class Clock:
    now = 0.0


fake_time = types.SimpleNamespace(
    monotonic=lambda: Clock.now,
    time=lambda: Clock.now,
)
cra.time = fake_time  # only affects the name `time` inside cubed.runtime.asyncio

N = 10
submissions = Counter()  # input -> number of submissions
futures = {}  # (input, submission number) -> future


def create_futures_func(inputs, **kwargs):
    loop = asyncio.get_running_loop()
    out = []
    for i in inputs:
        submissions[i] += 1
        fut = loop.create_future()
        futures[(i, submissions[i])] = fut
        out.append((i, fut))
    return out


async def settle():
    # let the map coroutine run until it blocks in asyncio.wait again
    for _ in range(50):
        await asyncio.sleep(0)


async def consume(results):
    async for r in async_map_unordered(
        create_futures_func, range(N), use_backups=True
    ):
        results.append(r)


async def main():
    results = []
    consumer = asyncio.ensure_future(consume(results))
    await settle()
    assert sum(submissions.values()) == N

    Clock.now = 1.0
    for i in range(1, 9):
        futures[(i, 1)].set_result(i)
    await settle()
    assert submissions[0] == 1, "backup launched too early (demo script problem)"

    Clock.now = 10.0
    futures[(9, 1)].set_result(9)
    await settle()
    assert submissions[0] == 2, (
        f"expected a backup for straggler input 0 at t=10, submissions={submissions[0]}"
    )

    # the backup fails while the original is still running
    Clock.now = 11.0
    futures[(0, 2)].set_exception(RuntimeError("backup of input 0 failed"))
    await settle()
    assert not consumer.done(), "map finished/raised although the original is still running"
    subs_after_backup_failure = submissions[0]

    # the original finally succeeds
    Clock.now = 12.0
    futures[(0, 1)].set_result(0)
    await asyncio.wait_for(consumer, timeout=30)

    # retrieve exceptions of any futures left over, to avoid noise at exit
    for f in futures.values():
        if f.done() and not f.cancelled():
            f.exception()

    return results, subs_after_backup_failure


results, subs0 = asyncio.run(main())

print("results:", sorted(results))
print("submissions of input 0:", subs0)

ok = True
if sorted(results) != list(range(N)):
    print(f"FAIL: expected exactly one result per input, got {sorted(results)}")
    ok = False
if subs0 > 2:
    print(
        f"FAIL: input 0 was submitted {subs0} times (original + {subs0 - 1} backups); "
        "an input may be submitted at most twice (the original and at most one backup)"
    )
    ok = False
for i in range(1, N):
    if submissions[i] != 1:
        print(f"FAIL: input {i} submitted {submissions[i]} times")
        ok = False

assert ok, "C08 violated: more than one backup submitted for an input"
print("OK")
sys.exit(0)
