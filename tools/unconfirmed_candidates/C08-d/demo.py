"""C08 / change d: each submission makes at most retries+1 attempts, and a task that does not
succeed within the retry budget makes the computation raise the task's error.

End to end on the real ``threads`` executor: a blockwise function fails the first K times it is
called for ONE chosen block (a transient fault on that chunk), and succeeds afterwards.

For retries in {0, 1, 2} (given as an executor option, and also as a compute() argument):
  * K = retries + 1 faults  -> budget exhausted: compute() must raise the fault, after exactly
                               retries + 1 attempts on the chosen block;
  * K = retries faults      -> compute() must succeed with the right values, after exactly
                               retries + 1 attempts on the chosen block.
"""

import sys
import tempfile
import threading
from collections import Counter

import numpy as np

import cubed
import cubed.array_api as xp
from cubed.runtime.executors.local import ThreadsExecutor

print("cubed imported from", cubed.__file__)


class InjectedFault(OSError):
    pass


def make_faulty(n_faults, marker):
    """Blockwise function that fails the first n_faults times it sees the block containing marker."""
    lock = threading.Lock()
    attempts = Counter()

    def faulty(block):
        chosen = bool((block == marker).any())
        with lock:
            attempts[chosen] += 1
            k = attempts[chosen]
        if chosen and k <= n_faults:
            raise InjectedFault(f"injected fault #{k} on the chosen block")
        return block + 1

    return faulty, attempts


def run(retries, n_faults, how, work_dir):
    spec = cubed.Spec(work_dir=work_dir, allowed_mem="100MB")
    an = np.arange(16, dtype=np.float64).reshape(4, 4)
    a = xp.asarray(an, chunks=(2, 2), spec=spec)  # 4 blocks
    func, attempts = make_faulty(n_faults, marker=15.0)
    b = cubed.map_blocks(func, a, dtype=a.dtype)
    if how == "executor-option":
        executor = ThreadsExecutor(retries=retries)
        compute_kwargs = {}
    else:
        executor = ThreadsExecutor()
        compute_kwargs = {"retries": retries}
    try:
        res = b.compute(executor=executor, optimize_graph=False, **compute_kwargs)
        outcome = "ok"
        assert np.array_equal(res, an + 1), "wrong values"
    except InjectedFault:
        outcome = "raised"
    return outcome, attempts[True], attempts[False]


failures = []
with tempfile.TemporaryDirectory() as tmp:
    for how in ("executor-option", "compute-kwarg"):
        for retries in (0, 1, 2):
            for n_faults, expected in ((retries + 1, "raised"), (retries, "ok")):
                outcome, chosen_attempts, other_attempts = run(
                    retries, n_faults, how, tmp
                )
                line = (
                    f"retries={retries} ({how}), faults on chosen block={n_faults}: "
                    f"outcome={outcome} (expected {expected}), attempts on chosen block="
                    f"{chosen_attempts} (expected {retries + 1}), attempts on the 3 other blocks={other_attempts} (expected one each)"
                )
                good = (
                    outcome == expected
                    and chosen_attempts == retries + 1
                    # (when compute() raises, the other blocks may not all have run yet)
                    and (other_attempts == 3 if outcome == "ok" else other_attempts <= 3)
                )
                print(("ok   " if good else "FAIL ") + line)
                if not good:
                    failures.append(line)

assert not failures, (
    "C08 violated: retry budget not honoured (a submission made more than retries+1 attempts / "
    "a task that failed within its budget did not fail the computation):\n  "
    + "\n  ".join(failures)
)
print("OK")
sys.exit(0)
