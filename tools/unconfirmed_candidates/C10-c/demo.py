"""Demo for change c (C10): resume prunes a *requested* array whose readers are already computed.

History (no faults, no store, default optimizer, default executor):
  1. build   a -> x = a + 1 -> y = x * 2      (x has y as its only reader)
  2. y.compute()                              (x is fused away, only y is materialized)
  3. cubed.compute(x, y, resume=True)         (y is complete and is skipped; x must still be computed)

Expected: step 3 returns x == a + 1 and y == (a + 1) * 2, whatever was computed before.
"""
import shutil
import sys
import tempfile

import numpy as np

import cubed
import cubed.array_api as xp


def main():
    tmp = tempfile.mkdtemp(prefix="c10-demo-c-")
    try:
        spec = cubed.Spec(work_dir=tmp, allowed_mem="200MB")
        an = np.arange(1, 37, dtype=np.float64).reshape(6, 6)
        a_checksum = an.copy()

        a = xp.asarray(an, chunks=(3, 3), spec=spec)
        x = xp.add(a, 1.0)
        y = xp.multiply(x, 2.0)

        # control: the same call on a history where nothing was computed before
        a2 = xp.asarray(an, chunks=(3, 3), spec=spec)
        x2 = xp.add(a2, 1.0)
        y2 = xp.multiply(x2, 2.0)
        x2_res, y2_res = cubed.compute(x2, y2, resume=True)
        np.testing.assert_array_equal(np.asarray(x2_res), an + 1.0)
        np.testing.assert_array_equal(np.asarray(y2_res), (an + 1.0) * 2.0)

        # the history under test
        y_first = y.compute()
        np.testing.assert_array_equal(np.asarray(y_first), (an + 1.0) * 2.0)

        x_res, y_res = cubed.compute(x, y, resume=True)
        x_res, y_res = np.asarray(x_res), np.asarray(y_res)

        assert np.array_equal(y_res, (an + 1.0) * 2.0), (
            f"y changed after resume:\n{y_res}"
        )
        assert np.array_equal(x_res, an + 1.0), (
            "C10 violated: x = a + 1 computed with resume=True after y = x * 2 had "
            "already been computed gives a different answer than it does on a fresh "
            f"history.\nexpected:\n{an + 1.0}\ngot:\n{x_res}"
        )

        # and it keeps giving the right answer afterwards, with or without resume
        assert np.array_equal(np.asarray(x.compute(resume=True)), an + 1.0), (
            "C10 violated: x.compute(resume=True) returns wrong (never written) data"
        )
        assert np.array_equal(np.asarray(x.compute()), an + 1.0)
        assert np.array_equal(an, a_checksum), "in-memory input was modified"
    finally:
        shutil.rmtree(tmp, ignore_errors=True)
    print("OK: values do not depend on what was computed before")


if __name__ == "__main__":
    main()
    sys.exit(0)
