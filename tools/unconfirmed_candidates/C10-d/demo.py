"""Demo for change d (C10): computing an array together with one of its descendants.

Pool:  a, b (in-memory inputs);  x = a + 1;  w = -b;  y = x * w
       (x is read only by y; y has a second, fusable, predecessor w)

The value of x and y must not depend on *which subset* of the pool is computed in one call, on whether
the graph is optimized, or on what was computed earlier:
    compute(x, y)  ==  (x.compute(), y.compute())  ==  compute(x, y, optimize_graph=False)
"""
import shutil
import sys
import tempfile

import numpy as np

import cubed
import cubed.array_api as xp


def build(an, bn, spec):
    a = xp.asarray(an, chunks=(2, 2), spec=spec)
    b = xp.asarray(bn, chunks=(2, 2), spec=spec)
    x = xp.add(a, 1.0)
    w = xp.negative(b)
    y = xp.multiply(x, w)
    return x, y


def try_compute(*arrays, **kwargs):
    try:
        return tuple(np.asarray(r) for r in cubed.compute(*arrays, **kwargs)), None
    except Exception as e:  # noqa: BLE001
        return None, e


def main():
    tmp = tempfile.mkdtemp(prefix="c10-demo-d-")
    try:
        spec = cubed.Spec(work_dir=tmp, allowed_mem="200MB")
        an = np.arange(16, dtype=np.float64).reshape(4, 4)
        bn = an[::-1, ::-1].copy() + 3.0
        an0, bn0 = an.copy(), bn.copy()
        x_expected = an + 1.0
        y_expected = (an + 1.0) * -bn

        # history 1: each array on its own
        x, y = build(an, bn, spec)
        assert np.array_equal(np.asarray(y.compute()), y_expected)
        assert np.array_equal(np.asarray(x.compute()), x_expected)

        # history 2: unoptimized, both at once, nothing computed before
        x, y = build(an, bn, spec)
        res, err = try_compute(x, y, optimize_graph=False)
        assert err is None, f"unoptimized compute(x, y) failed: {err!r}"
        assert np.array_equal(res[0], x_expected) and np.array_equal(res[1], y_expected)

        # history 3: optimized (the default), both at once, nothing computed before
        x, y = build(an, bn, spec)
        res, err = try_compute(x, y)
        assert err is None, (
            "C10 violated: compute(x, y) on a fresh history fails, although x.compute(), "
            "y.compute() and compute(x, y, optimize_graph=False) all succeed on the same "
            f"arrays: {type(err).__name__}: {err}"
        )
        assert np.array_equal(res[0], x_expected), (
            f"C10 violated: x computed together with y differs:\n{res[0]}"
        )
        assert np.array_equal(res[1], y_expected), (
            f"C10 violated: y computed together with x differs:\n{res[1]}"
        )

        # history 4: the same call after x has been computed on its own must agree as well
        x, y = build(an, bn, spec)
        x.compute()
        res, err = try_compute(x, y)
        assert err is None and np.array_equal(res[0], x_expected)
        assert np.array_equal(res[1], y_expected)

        assert np.array_equal(an, an0) and np.array_equal(bn, bn0), "inputs modified"
    finally:
        shutil.rmtree(tmp, ignore_errors=True)
    print("OK: values do not depend on the subset computed / optimization / history")


if __name__ == "__main__":
    main()
    sys.exit(0)
