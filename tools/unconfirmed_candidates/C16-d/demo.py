"""C16 demo (change d): a user-supplied intermediate store must stay untouched until compute.

With ``Spec(intermediate_store=<zarr store>)`` cubed writes its intermediate arrays
to the given store object instead of a directory under ``work_dir``. Building arrays,
composing operations, asking for the plan and visualizing it must not write anything
to that store: metadata (and data) only appears once `compute` runs, starting with the
create-arrays operation.

The program traces the store at key level and fails if anything is written (or the
store is non-empty) before `compute`.
"""

import asyncio
import os
import sys
import tempfile
import threading

import numpy as np
import zarr
from zarr.storage import LocalStore, MemoryStore, WrapperStore

import cubed
import cubed.array_api as xp


class TracingStore(WrapperStore):
    """Records every key that is written to / deleted from the wrapped store."""

    def __init__(self, store, _trace=None):
        super().__init__(store)
        # the trace is shared by the copies zarr makes of a store (e.g. with_read_only)
        self.sets, self.deletes, self._lock = _trace or ([], [], threading.Lock())

    def _with_store(self, store):
        return type(self)(store, _trace=(self.sets, self.deletes, self._lock))

    async def set(self, key, value):
        with self._lock:
            self.sets.append(key)
        return await super().set(key, value)

    async def set_if_not_exists(self, key, value):
        with self._lock:
            self.sets.append(key)
        return await super().set_if_not_exists(key, value)

    async def delete(self, key):
        with self._lock:
            self.deletes.append(key)
        return await super().delete(key)

    def keys(self):
        async def _list():
            return sorted([k async for k in self._store.list()])

        return asyncio.run(_list())


def run(kind, make_store, tmp):
    store = TracingStore(make_store())
    spec = cubed.Spec(intermediate_store=store, allowed_mem="100MB")
    failures = []

    def check(stage):
        keys = store.keys()
        print(
            f"[{kind}] after {stage}: sets={list(store.sets)} deletes={list(store.deletes)} "
            f"keys in store={keys}"
        )
        if store.sets or store.deletes or keys:
            failures.append(stage)

    an = np.arange(36, dtype="float64").reshape(6, 6)
    with cubed.raise_if_computes():
        a = xp.asarray(an, chunks=(2, 2), spec=spec)
        check("asarray")
        b = xp.add(a, 1.0)
        check("add")
        c = xp.sum(b.rechunk((3, 6)), axis=0)
        check("rechunk + sum")
        c.plan()
        check("plan()")
        try:
            c.visualize(filename=os.path.join(tmp, f"plan-{kind}"), format="dot")
        except Exception as e:  # graphviz may be unavailable; not what is tested here
            print(f"(visualize skipped: {type(e).__name__}: {e})")
        check("visualize()")

    written_before_compute = list(store.sets)

    # sanity: compute works and *does* use the store
    result = c.compute()
    np.testing.assert_allclose(result, (an + 1.0).sum(axis=0))
    assert store.sets, "compute() was expected to write intermediate arrays to the store"
    print(f"[{kind}] after compute(): {len(store.sets)} keys written")

    assert not failures, (
        f"C16 violated ({kind}): the intermediate store was written to before compute() "
        f"was called (first seen after: {failures[0]}); "
        f"keys written before compute: {written_before_compute}"
    )


def main():
    with tempfile.TemporaryDirectory() as tmp:
        run("MemoryStore", MemoryStore, tmp)
        run("LocalStore", lambda: LocalStore(os.path.join(tmp, "intermediate.zarr")), tmp)
    print("OK: nothing was written to the intermediate store before compute()")


if __name__ == "__main__":
    try:
        main()
    except AssertionError as e:
        print(f"FAIL: {e}")
        sys.exit(1)
