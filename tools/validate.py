"""Validate MANIFEST.json and every evidence file against the schemas."""
import glob
import json
import sys

import jsonschema

ok = True
m = json.load(open("/verif/MANIFEST.json"))
jsonschema.validate(m, json.load(open("/root/.vp/MANIFEST.schema.json")))
es = json.load(open("/root/.vp/EVIDENCE.schema.json"))
for f in sorted(glob.glob("/verif/evidence/*.json")):
    try:
        jsonschema.validate(json.load(open(f)), es)
        print("ok", f)
    except Exception as e:  # noqa: BLE001
        ok = False
        print("INVALID", f, str(e)[:300])
props = {json.loads(l)["id"] for l in open("/verif/properties.jsonl")}
claimed = {c["property_id"] for c in m["checks"]}
na = {c["property_id"] for c in m.get("not_applicable", [])}
print("claimed", sorted(claimed))
print("unaccounted", sorted(props - claimed - na))
sys.exit(0 if ok else 1)
